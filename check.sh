#!/bin/bash
# ./check.sh <Cnn> quick|thorough      run the check of one property
# ./check.sh replay <file> [v]         re-execute a replay file
# exit 0 = property held on everything explored, 1 = VIOLATION, 2 = harness error
set -u
cd "$(dirname "$0")"
export CARGO_NET_OFFLINE=true
build() {
  (cd "$1" && cargo build --release --offline >"../.build-$1.log" 2>&1) || {
    echo "harness error: build of $1 failed (does /repo compile with the verification cfg?)"; tail -30 ".build-$1.log"; exit 2; }
}
case "${1:-}" in
  replay)
    f="${2:?file}"
    if grep -q '"engine": "ttysim"' "$f"; then
      build ttysim; ttysim/target/release/ttysim replay "$f" "${3:-}"; rc=$?
      if [ $rc -ge 128 ]; then
        # n2 took the whole process down (a panic while unwinding from a panic aborts):
        # for a never-panics / never-aborts oracle that is the violation, reproduced
        prop=$(grep -o '"property": "[^"]*"' "$f" | head -1 | cut -d'"' -f4)
        echo "violation: $prop process-abort the process running n2 died with signal $((rc-128)) while replaying"
        echo "VIOLATION property=$prop replay=$f"; exit 1
      fi
      exit $rc;
    else build sim; exec sim/target/release/buildsim replay "$f" "${3:-}"; fi ;;
  C20)
    build ttysim; exec ttysim/target/release/ttysim check C20 "${2:-quick}" ;;
  C16|C19)
    # two legs: the discrete-event engine, then the same property's clauses that need real
    # threads and a terminal (output shown once / counts as rendered) under the shuttle engine
    build sim; build ttysim
    sim/target/release/buildsim check "$1" "${2:-quick}"; e1=$?
    ttysim/target/release/ttysim check "$1" "${2:-quick}"; e2=$?
    python3 - "$1" <<'PY'
import json, sys, os
p = sys.argv[1]
main = f"/verif/evidence/{p}.json"; tty = f"/verif/evidence/{p}.tty.json"
try:
    m = json.load(open(main)); t = json.load(open(tty))
    m["coverage"]["tty_leg"] = {k: t["coverage"].get(k) for k in ("evaluations", "distinct_nontrivial", "frames_rendered", "commands_executed", "simulated_seconds", "faults_fired", "probes", "replays", "components")}
    m["coverage"]["tty_leg"]["violations"] = t.get("violations", 0)
    m["violations"] = m.get("violations", 0) + t.get("violations", 0)
    m["wall_s"] = m.get("wall_s", 0) + t.get("wall_s", 0)
    json.dump(m, open(main, "w"), indent=2)
    os.remove(tty)
except Exception as ex:
    print("harness error: evidence merge:", ex); sys.exit(2)
PY
    e3=$?
    [ $e1 -eq 2 ] || [ $e2 -eq 2 ] || [ $e3 -eq 2 ] && exit 2
    [ $e1 -eq 1 ] || [ $e2 -eq 1 ] && exit 1
    exit 0 ;;
  C*)
    build sim; exec sim/target/release/buildsim check "$1" "${2:-quick}" ;;
  *) echo "usage: $0 <Cnn> quick|thorough | replay <file>"; exit 2 ;;
esac
