mod bigshape;
mod coord;
mod disk;
mod exec;
mod host;
mod minimise;
mod model;
mod project;
mod rng;
mod scenario;
mod spawn;

use std::collections::BTreeMap;

fn main() {
    exec::install_panic_hook();
    let a: Vec<String> = std::env::args().collect();
    match a.get(1).map(|s| s.as_str()) {
        Some("dev") => {
            let prop = a.get(2).cloned().unwrap_or("mixed".into());
            let from: u64 = a.get(3).map(|s| s.parse().unwrap()).unwrap_or(1);
            let to: u64 = a.get(4).map(|s| s.parse().unwrap()).unwrap_or(from + 1);
            let verbose = a.get(5).map(|s| s == "v").unwrap_or(false);
            let pf = scenario::Profile::for_property(&prop);
            let sb = exec::Sandbox::new("dev");
            let t0 = std::time::Instant::now();
            let mut kinds: BTreeMap<String, usize> = BTreeMap::new();
            let mut stats: BTreeMap<String, u64> = BTreeMap::new();
            let (mut ninv, mut ncmd, mut nv) = (0, 0, 0);
            for seed in from..to {
                let sc = scenario::gen_scenario(seed, &pf);
                let r = exec::run_scenario(&sc, &sb, verbose);
                if std::env::var("SHOW_HASH").is_ok() {
                    eprintln!("HASH {} {:016x}", seed, r.trace_hash);
                }
                ninv += r.invocations;
                ncmd += r.commands;
                for (k, x) in &r.stats {
                    *stats.entry(k.clone()).or_default() += x;
                }
                let known = coord::load_findings();
                let is_known = |v: &host::Violation| known.findings.iter().any(|f| f.status == "known" && f.property == v.prop && f.code == v.code);
                let cut = r.violations.iter().any(|(_, v)| is_known(v));
                for (opi, x) in &r.violations {
                    if cut && !is_known(x) {
                        continue;
                    }
                    let e = kinds.entry(format!("{}.{}", x.prop, x.code)).or_default();
                    if *e < 4 {
                        eprintln!("VIOL seed {} op {}: {} {} {}", seed, opi, x.prop, x.code, x.detail);
                    }
                    *e += 1;
                    nv += 1;
                }
            }
            eprintln!(
                "seeds {}..{}: {} invocations, {} commands, {} violations, {:.1}s\nkinds {:?}\nstats {:?}",
                from, to, ninv, ncmd, nv, t0.elapsed().as_secs_f64(), kinds, stats
            );
        }
        Some("check") => {
            let prop = a.get(2).cloned().unwrap_or_default();
            let tier = a.get(3).cloned().unwrap_or("quick".into());
            std::process::exit(coord::check(&prop, &tier));
        }
        Some("worker") => {
            let n = |i: usize| -> u64 { a[i].parse().unwrap() };
            coord::worker(&a[2], &a[3], n(4), n(5), n(6), n(7), n(8), n(9));
        }
        Some("one") => {
            // run one seed of a profile (used to locate a seed that kills the process)
            let seed: u64 = a[3].parse().unwrap();
            let sb = exec::Sandbox::new(&format!("one{}", seed));
            if a[2] == "spawn" {
                let _ = spawn::run(&spawn::gen(seed), &sb);
            } else {
                let _ = exec::run_scenario(&scenario::gen_scenario(seed, &scenario::Profile::for_property(&a[2])), &sb, false);
            }
        }
        Some("spawndev") => {
            let from: u64 = a[2].parse().unwrap();
            let to: u64 = a[3].parse().unwrap();
            let sb = exec::Sandbox::new("spawndev");
            let mut n = 0;
            for seed in from..to {
                let sc = spawn::gen(seed);
                let r = spawn::run(&sc, &sb);
                n += r.commands;
                for (c, d) in &r.violations {
                    eprintln!("VIOL seed {}: {} {}", seed, c, d);
                    if a.get(4).is_some() {
                        eprintln!("{}", spawn::render(&sc));
                    }
                }
            }
            eprintln!("{} commands", n);
        }
        Some("replay") => {
            let v = a.get(3).map(|s| s == "v").unwrap_or(false);
            std::process::exit(coord::replay_file(&a[2], v));
        }
        Some("seed") => {
            // print the scenario of one seed as a replay-style JSON
            let prop = a.get(2).cloned().unwrap_or("mixed".into());
            let seed: u64 = a[3].parse().unwrap();
            let sc = scenario::gen_scenario(seed, &scenario::Profile::for_property(&prop));
            println!("{}", serde_json::to_string_pretty(&sc).unwrap());
        }
        _ => {
            eprintln!("usage: buildsim check <Cnn> quick|thorough | replay <file> [v] | dev <prop> <from> <to> [v] | seed <prop> <n>");
            std::process::exit(2);
        }
    }
}
