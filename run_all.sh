#!/bin/bash
# run every registered check of a tier in sequence; summary at the end
tier="${1:-quick}"; cd "$(dirname "$0")"; rc=0
for p in $(python3 -c "import json;print(' '.join(c['property_id'] for c in json.load(open('MANIFEST.json'))['checks']))"); do
  ./check.sh $p $tier > .out-$p.log 2>&1; e=$?
  echo "$p exit=$e $(grep -c '^VIOLATION' .out-$p.log) violations; $(tail -1 .out-$p.log | cut -c1-200)"
  [ $e -ne 0 ] && rc=1
done
exit $rc
