#!/bin/bash
# false-alarm sweep: every check's quick tier under other VERIF_SEED values (unchanged tree expected)
cd /verif
for seed in "$@"; do
  for p in $(python3 -c "import json;print(' '.join(c['property_id'] for c in json.load(open('MANIFEST.json'))['checks']))"); do
    VERIF_SEED=$seed ./check.sh $p quick > .out-seed$seed-$p.log 2>&1; e=$?
    echo "seed=$seed $p exit=$e $(grep -c '^VIOLATION' .out-seed$seed-$p.log) violations; $(grep '^violation' .out-seed$seed-$p.log | head -2 | cut -c1-200 | tr '\n' '|')"
  done
done
