//! Abstract project (the thing the reference models are computed from) and its
//! rendering to .ninja text with randomised, meaning-preserving spelling.
use crate::rng::{h64, Rng};
use serde::{Deserialize, Serialize};
use std::collections::{BTreeSet, HashMap};

#[derive(Clone, Debug, Serialize, Deserialize, PartialEq)]
pub struct Src {
    pub name: String,
    pub ver: u64,
    /// names of files this one "includes" (other sources or generated files)
    pub incs: Vec<String>,
    /// includes are `__has_include`-style: a missing one is silently skipped
    pub soft: bool,
    pub exists: bool,
    /// extra text appended to the content (the generator input names a variant here)
    #[serde(default)]
    pub tag: String,
    /// gcc -MG style: a missing (soft) include is still reported as a dependency
    #[serde(default)]
    pub mg: bool,
}

#[derive(Clone, Debug, Serialize, Deserialize, PartialEq)]
pub struct Rsp {
    pub path: String,
    pub ver: u64,
}

#[derive(Clone, Debug, Serialize, Deserialize, PartialEq)]
pub struct Step {
    pub id: usize,
    pub outs: Vec<String>,
    pub nexp: usize,
    pub exp: Vec<String>,
    pub imp: Vec<String>,
    pub oo: Vec<String>,
    pub val: Vec<String>,
    pub phony: bool,
    pub salt: u64,
    /// extra text embedded in the command (quotes, `$`, redirections ...)
    pub decor: String,
    /// 0 none, 1 gcc depfile, 2 msvc /showIncludes
    pub depmode: u8,
    /// does not rewrite an output whose content would not change
    pub restat: bool,
    pub pool: Option<String>,
    pub rsp: Option<Rsp>,
    pub hide_success: bool,
    pub removed: bool,
    /// this step's (single) output is the manifest itself
    pub generator: bool,
    /// a private input (declared or discovered) whose mtime the command refreshes on every run
    #[serde(default)]
    pub touches: Option<String>,
    /// 0: inputs joined with spaces ($in); 1: the command uses $in_newline;
    /// 2: the response file content uses $in_newline
    #[serde(default)]
    pub nl: u8,
}

#[derive(Clone, Debug, Serialize, Deserialize, PartialEq)]
pub struct Project {
    pub srcs: Vec<Src>,
    pub steps: Vec<Step>,
    pub pools: Vec<(String, usize)>,
    pub defaults: Vec<String>,
    /// statement order (indices into steps)
    pub order: Vec<usize>,
    /// seed of all spelling decisions of the renderer
    pub spell: u64,
    pub builddir: Option<String>,
    pub manifest: String,
}

/// Independent lexical canonicaliser for names typed by the "user".
pub fn canon(p: &str) -> String {
    let abs = p.starts_with('/');
    let mut parts: Vec<&str> = Vec::new();
    for c in p.split('/') {
        match c {
            "" | "." => {}
            ".." => {
                if matches!(parts.last(), Some(&l) if l != "..") {
                    parts.pop();
                } else if !abs {
                    parts.push("..");
                }
            }
            c => parts.push(c),
        }
    }
    let j = parts.join("/");
    if abs {
        format!("/{}", j)
    } else if j.is_empty() {
        ".".into()
    } else {
        j
    }
}

pub fn parent_dir(p: &str) -> Option<&str> {
    p.rfind('/').map(|i| &p[..i])
}

impl Project {
    pub fn live_steps(&self) -> impl Iterator<Item = (usize, &Step)> {
        self.steps.iter().enumerate().filter(|(_, s)| !s.removed)
    }
    pub fn producer(&self, f: &str) -> Option<usize> {
        // fast path for the big-shape workloads: bo/oK is output K of step 0
        if let Some(k) = f.strip_prefix("bo/o").and_then(|k| k.parse::<usize>().ok()) {
            if let Some(s) = self.steps.first() {
                if !s.removed && s.outs.get(k).map(|o| o == f).unwrap_or(false) {
                    return Some(0);
                }
            }
        }
        self.steps
            .iter()
            .position(|s| !s.removed && s.outs.iter().any(|o| o == f))
    }
    pub fn src(&self, f: &str) -> Option<usize> {
        // fast path for the big-shape workloads: bh/hK sits at a fixed offset
        if let Some(k) = f.strip_prefix("bh/h").and_then(|k| k.parse::<usize>().ok()) {
            for off in [1usize, 3] {
                if self.srcs.get(k + off).map(|s| s.name == f).unwrap_or(false) {
                    return Some(k + off);
                }
            }
        }
        self.srcs.iter().position(|s| s.name == f)
    }
    pub fn step_by_id(&self, id: usize) -> Option<usize> {
        self.steps.iter().position(|s| !s.removed && s.id == id)
    }
    /// every path the manifest mentions
    pub fn mentioned(&self) -> BTreeSet<String> {
        let mut m = BTreeSet::new();
        for (_, s) in self.live_steps() {
            for f in s.outs.iter().chain(&s.exp).chain(&s.imp).chain(&s.oo).chain(&s.val) {
                m.insert(f.clone());
            }
        }
        for d in &self.defaults {
            m.insert(d.clone());
        }
        m
    }
    pub fn cmdline(&self, s: &Step) -> String {
        format!(
            "sim s{} v{} {}{} : {}",
            s.id,
            s.salt,
            s.decor,
            s.outs[..s.nexp].join(" "),
            s.exp.join(if s.nl == 1 { "\n" } else { " " })
        )
    }
    pub fn desc(&self, s: &Step) -> String {
        format!("D s{}", s.id)
    }
    pub fn rsp_content(&self, s: &Step) -> Option<String> {
        // the length varies non-monotonically with the version (a rewrite can be shorter)
        s.rsp
            .as_ref()
            .map(|r| format!("RSP s{} r{}{} {}", s.id, r.ver, "+".repeat([4usize, 0, 7, 1, 3][(r.ver % 5) as usize]), s.exp.join(if s.nl == 2 { "\n" } else { " " })))
    }
    pub fn depfile_path(&self, s: &Step) -> Option<String> {
        if s.depmode == 1 {
            Some(format!("{}.d", s.outs[0]))
        } else {
            None
        }
    }
    pub fn db_path(&self) -> String {
        match &self.builddir {
            Some(b) => format!("{}/.n2_db", b),
            None => ".n2_db".into(),
        }
    }
    pub fn pool_depth(&self, p: &Option<String>) -> Option<usize> {
        match p.as_deref() {
            None | Some("") => Some(0),
            Some("console") => Some(
                self.pools
                    .iter()
                    .rev()
                    .find(|x| x.0 == "console")
                    .map(|x| x.1)
                    .unwrap_or(1),
            ),
            Some(n) => self.pools.iter().rev().find(|x| x.0 == n).map(|x| x.1),
        }
    }
    /// Files a step reads beyond its declared inputs, in report order
    /// (what a compiler would list).  `exists` tells whether a file is
    /// present right now (soft includes skip missing files).
    pub fn hidden(&self, s: &Step, exists: &dyn Fn(&str) -> bool) -> Result<Vec<String>, String> {
        let mut out: Vec<String> = Vec::new();
        if s.depmode == 0 {
            return Ok(out);
        }
        let mut seen: std::collections::HashSet<String> = std::collections::HashSet::new();
        fn dfs(
            p: &Project,
            i: usize,
            out: &mut Vec<String>,
            seen: &mut std::collections::HashSet<String>,
            exists: &dyn Fn(&str) -> bool,
        ) -> Result<(), String> {
            for n in &p.srcs[i].incs {
                if seen.contains(n) {
                    continue;
                }
                if !exists(n) {
                    if p.srcs[i].soft {
                        continue;
                    }
                    return Err(n.clone());
                }
                out.push(n.clone());
                seen.insert(n.clone());
                if let Some(j) = p.src(n) {
                    dfs(p, j, out, seen, exists)?;
                }
            }
            Ok(())
        }
        for f in s.exp.iter().chain(s.imp.iter()) {
            if let Some(i) = self.src(f) {
                dfs(self, i, &mut out, &mut seen, exists)?;
            }
        }
        Ok(out)
    }
    /// soft includes that are missing right now but still reported (-MG style sources)
    pub fn reported_missing(&self, s: &Step, exists: &dyn Fn(&str) -> bool) -> Vec<String> {
        let mut out = Vec::new();
        if s.depmode == 0 {
            return out;
        }
        let mut seen: Vec<usize> = Vec::new();
        let mut st: Vec<usize> = s.exp.iter().chain(&s.imp).filter_map(|f| self.src(f)).collect();
        while let Some(i) = st.pop() {
            if seen.contains(&i) {
                continue;
            }
            seen.push(i);
            for n in &self.srcs[i].incs {
                if exists(n) {
                    if let Some(j) = self.src(n) {
                        st.push(j);
                    }
                } else if self.srcs[i].soft && self.srcs[i].mg && !out.contains(n) {
                    out.push(n.clone());
                }
            }
        }
        out
    }
    pub fn has_generator(&self) -> bool {
        self.steps.iter().any(|s| s.generator && !s.removed)
    }
    pub fn src_content(&self, i: usize) -> String {
        format!(
            "{}:v{}:{:?}{}",
            self.srcs[i].name, self.srcs[i].ver, self.srcs[i].incs, self.srcs[i].tag
        )
    }
    pub fn ordering_ins<'a>(&self, s: &'a Step) -> impl Iterator<Item = &'a String> {
        s.exp.iter().chain(&s.imp).chain(&s.oo)
    }
    /// transitive producers through explicit/implicit/order-only edges
    pub fn order_anc(&self, si: usize) -> BTreeSet<usize> {
        let mut seen = BTreeSet::new();
        let mut st = vec![si];
        while let Some(i) = st.pop() {
            let s = &self.steps[i];
            for f in self.ordering_ins(s) {
                if let Some(p) = self.producer(f) {
                    if seen.insert(p) {
                        st.push(p);
                    }
                }
            }
        }
        seen
    }
    /// is there an ordering cycle reachable from `wanted` through ordering
    /// edges (validation edges only add roots)?
    pub fn has_cycle_in(&self, wanted: &BTreeSet<usize>) -> bool {
        fn visit(p: &Project, i: usize, col: &mut HashMap<usize, u8>) -> bool {
            match col.get(&i) {
                Some(1) => return true,
                Some(2) => return false,
                _ => {}
            }
            col.insert(i, 1);
            let s = &p.steps[i];
            for f in p.ordering_ins(s) {
                if let Some(q) = p.producer(f) {
                    if visit(p, q, col) {
                        return true;
                    }
                }
            }
            col.insert(i, 2);
            false
        }
        let mut col = HashMap::new();
        wanted.iter().any(|&i| visit(self, i, &mut col))
    }
    /// wanted steps = producers reachable from targets over all four edge kinds
    pub fn closure(&self, targets: &[String]) -> BTreeSet<usize> {
        let mut seen = BTreeSet::new();
        let mut st: Vec<usize> = Vec::new();
        for t in targets {
            if let Some(p) = self.producer(t) {
                if seen.insert(p) {
                    st.push(p);
                }
            }
        }
        while let Some(i) = st.pop() {
            let s = &self.steps[i];
            for f in s.exp.iter().chain(&s.imp).chain(&s.oo).chain(&s.val) {
                if let Some(p) = self.producer(f) {
                    if seen.insert(p) {
                        st.push(p);
                    }
                }
            }
        }
        seen
    }
    pub fn all_outs(&self) -> Vec<String> {
        self.live_steps().flat_map(|(_, s)| s.outs.clone()).collect()
    }

    /// M-clean: the bytes `f` must hold after a from-scratch build.
    pub fn clean(&self, f: &str, memo: &mut HashMap<String, String>) -> String {
        if let Some(c) = memo.get(f) {
            return c.clone();
        }
        memo.insert(f.to_string(), "CYCLE".into());
        let c = if let Some(i) = self.src(f) {
            if self.srcs[i].exists {
                self.src_content(i)
            } else {
                "MISSING".into()
            }
        } else if let Some(si) = self.producer(f) {
            let s = &self.steps[si];
            if s.phony {
                "MISSING".into()
            } else {
                let k = s.outs.iter().position(|o| o == f).unwrap();
                let reads: Vec<(String, String)> = s
                    .exp
                    .iter()
                    .chain(&s.imp)
                    .map(|i| (i.clone(), self.clean(i, memo)))
                    .collect();
                // in a clean build a file exists iff its clean content is not MISSING
                let hid_names = {
                    let ex = |n: &str| -> bool {
                        if let Some(i) = self.src(n) {
                            self.srcs[i].exists
                        } else {
                            self.producer(n).map(|p| !self.steps[p].phony).unwrap_or(false)
                        }
                    };
                    self.hidden(s, &ex)
                };
                match hid_names {
                    Err(_) => "UNBUILDABLE".into(),
                    Ok(names) => {
                        let hid: Vec<(String, String)> = names
                            .iter()
                            .map(|h| (h.clone(), self.clean(h, memo)))
                            .collect();
                        out_content(&self.cmdline(s), k, &self.rsp_content(s), &reads, &hid)
                    }
                }
            }
        } else {
            "MISSING".into()
        };
        memo.insert(f.to_string(), c.clone());
        c
    }
}

/// The content function of simulated commands.
pub fn out_content(
    cmd: &str,
    k: usize,
    rsp: &Option<String>,
    reads: &[(String, String)],
    hid: &[(String, String)],
) -> String {
    format!("{:016x}", h64(&(cmd, k, rsp, reads, hid)))
}

// ------------------------------------------------------------------ rendering

fn esc_path(p: &str) -> String {
    let mut o = String::new();
    for c in p.chars() {
        match c {
            ' ' => o.push_str("$ "),
            ':' => o.push_str("$:"),
            '$' => o.push_str("$$"),
            c => o.push(c),
        }
    }
    o
}
fn esc_val(p: &str) -> String {
    p.replace('$', "$$")
}

/// one of several equivalent spellings of a canonical relative path
fn respell(p: &str, r: &mut Rng) -> String {
    match r.below(12) {
        0 => format!("./{}", p),
        1 => format!("zz/../{}", p),
        2 => match p.find('/') {
            Some(i) => format!("{}/./{}", &p[..i], &p[i + 1..]),
            None => format!("././{}", p),
        },
        3 => match p.find('/') {
            Some(i) => format!("{}//{}", &p[..i], &p[i + 1..]),
            None => p.to_string(),
        },
        _ => p.to_string(),
    }
}

pub struct Rendered {
    /// (file name, text); first entry is the main manifest
    pub files: Vec<(String, String)>,
}

impl Project {
    pub fn render(&self) -> Rendered {
        let root = Rng::new(self.spell);
        let mut r = root.sub(1, 0);
        let plain = self.spell == 0;
        let has_gen = self.has_generator();
        let ninc = if has_gen {
            // the generator writes every file of the manifest: they are its outputs
            self.steps.iter().find(|s| s.generator && !s.removed).map(|s| s.outs.len() - 1).unwrap_or(0)
        } else if plain || r.pct(70) {
            0
        } else {
            1 + r.below(2)
        };
        let inc_kind: Vec<bool> = (0..ninc).map(|_| r.pct(50)).collect(); // true = subninja
        let mut texts: Vec<String> = vec![String::new(); ninc + 1];
        let shared_rule = plain || r.pct(60);
        let braces = !plain && r.pct(40);
        let v = |n: &str| -> String {
            if braces {
                format!("${{{}}}", n)
            } else {
                format!("${}", n)
            }
        };
        // where each pool declaration goes (any file, any position)
        let mut head = String::new();
        if !plain && r.pct(30) {
            head.push_str("# generated by buildsim\n\n");
        }
        if !plain && r.pct(50) {
            head.push_str("ninja_required_version = 1.10\n");
        }
        let mut tail_pools = String::new();
        for (n, d) in &self.pools {
            let t = format!("pool {}\n  depth = {}\n", n, d);
            if !plain && r.pct(25) {
                tail_pools.push_str(&t);
            } else {
                head.push_str(&t);
            }
        }
        // rule-level `pool = $pl` with the pool named per build statement
        let pool_var = !plain && r.pct(35);
        let prefix_var = !plain && r.pct(30);
        if prefix_var {
            head.push_str("simcmd = sim\n");
        }
        let simw = if prefix_var { v("simcmd") } else { "sim".to_string() };
        if shared_rule {
            head.push_str(&format!(
                "rule r\n  command = {} {} {} {}{} : {}\n  description = D {}\n{}",
                simw,
                v("id"),
                v("salt"),
                v("decor"),
                v("out"),
                v("in"),
                v("id"),
                if pool_var { format!("  pool = {}\n", v("pl")) } else { String::new() }
            ));
            head.push_str(&format!(
                "rule rdep\n  command = {} {} {} {}{} : {}\n  description = D {}\n  depfile = {}\n",
                simw, v("id"), v("salt"), v("decor"), v("out"), v("in"), v("id"), v("dfile")
            ));
            head.push_str(&format!(
                "rule rrsp\n  command = {} {} {} {}{} : {}\n  description = D {}\n  rspfile = {}\n  rspfile_content = RSP {} {} {}\n",
                simw, v("id"), v("salt"), v("decor"), v("out"), v("in"), v("id"), v("rsp"), v("id"), v("rver"), v("in")
            ));
        }
        texts[0].push_str(&head);
        // included files inherit a copy of the parent's variables at the point
        // of inclusion, so emit the include statements after the head.
        for k in 0..ninc {
            let stmt = if inc_kind[k] { "subninja" } else { "include" };
            let name = format!("{}.inc{}", self.manifest, k);
            let name = if !plain && r.pct(30) { format!("./{}", name) } else { name };
            texts[0].push_str(&format!("{} {}\n", stmt, name));
        }
        if let Some(b) = &self.builddir {
            texts[0].push_str(&format!("builddir = {}\n", esc_val(b)));
        }
        let mut dest_of: HashMap<String, usize> = HashMap::new();
        for &oi in &self.order {
            let s = &self.steps[oi];
            if s.removed {
                continue;
            }
            let mut sr = root.sub(2, s.id as u64);
            let dest = if ninc == 0 || s.generator { 0 } else { sr.below(ninc + 1) };
            for o in &s.outs {
                dest_of.insert(o.clone(), dest);
            }
            let cont = |sr: &mut Rng| -> &'static str {
                if !plain && sr.pct(8) {
                    " $\n    "
                } else {
                    " "
                }
            };
            let sp = |p: &String, sr: &mut Rng| -> String {
                let q = if plain { p.clone() } else { respell(p, sr) };
                esc_path(&q)
            };
            let mut l = String::new();
            if !plain && sr.pct(10) {
                l.push_str(&format!("# step {}\n", s.id));
            }
            l.push_str("build");
            for o in &s.outs[..s.nexp] {
                l.push_str(cont(&mut sr));
                l.push_str(&sp(o, &mut sr));
            }
            if s.outs.len() > s.nexp {
                l.push_str(" |");
                for o in &s.outs[s.nexp..] {
                    l.push_str(cont(&mut sr));
                    l.push_str(&sp(o, &mut sr));
                }
            }
            let nl = s.nl == 1 || (s.nl == 2 && s.rsp.is_some());
            let own_rule = !s.phony && (!shared_rule || (!plain && sr.pct(15)) || nl);
            // a rule without a command is as good as phony
            let nocmd_rule = s.phony && !plain && sr.pct(20);
            let rname = if nocmd_rule {
                format!("nc{}", s.id)
            } else if s.phony {
                "phony".to_string()
            } else if own_rule {
                format!("r{}", s.id)
            } else if s.rsp.is_some() {
                "rrsp".into()
            } else if s.depmode == 1 {
                "rdep".into()
            } else {
                "r".into()
            };
            l.push_str(if !plain && sr.pct(20) { ":  " } else { ": " });
            l.push_str(&rname);
            for f in &s.exp {
                l.push_str(cont(&mut sr));
                l.push_str(&sp(f, &mut sr));
            }
            if !s.imp.is_empty() {
                l.push_str(" |");
                for f in &s.imp {
                    l.push_str(cont(&mut sr));
                    l.push_str(&sp(f, &mut sr));
                }
            }
            if !s.oo.is_empty() {
                l.push_str(" ||");
                for f in &s.oo {
                    l.push_str(cont(&mut sr));
                    l.push_str(&sp(f, &mut sr));
                }
            }
            if !s.val.is_empty() {
                l.push_str(" |@");
                for f in &s.val {
                    l.push_str(cont(&mut sr));
                    l.push_str(&sp(f, &mut sr));
                }
            }
            l.push('\n');
            let mut binds: Vec<String> = Vec::new();
            let mut rule_text = String::new();
            // a phony step carries a description so that the state observer can name it
            if nocmd_rule {
                rule_text.push_str(&format!("rule nc{}\n  description = D s{}\n", s.id, s.id));
            } else if s.phony {
                binds.push(format!("description = D s{}", s.id));
            } else if own_rule {
                // literal command in a rule of its own, or bound at build level
                let build_level_cmd = !plain && sr.pct(30) && !nl;
                let lit = format!(
                    "{} s{} v{} {}",
                    if prefix_var && sr.pct(50) { v("simcmd") } else { "sim".into() },
                    s.id,
                    s.salt,
                    esc_val(&s.decor)
                );
                if build_level_cmd {
                    rule_text.push_str(&format!("rule r{}\n  command = false\n", s.id));
                    binds.push(format!(
                        "command = {}{} : {}",
                        lit,
                        esc_val(&s.outs[..s.nexp].join(" ")),
                        esc_val(&s.exp.join(" "))
                    ));
                    binds.push(format!("description = D s{}", s.id));
                } else {
                    rule_text.push_str(&format!(
                        "rule r{}\n  command = {}{} : {}\n  description = D s{}\n",
                        s.id,
                        lit,
                        v("out"),
                        if s.nl == 1 { v("in_newline") } else { v("in") },
                        s.id
                    ));
                }
                let tgt: &mut Vec<String> = &mut binds;
                if s.depmode == 1 {
                    tgt.push(format!("depfile = {}", esc_val(&self.depfile_path(s).unwrap())));
                }
                if let Some(rsp) = &s.rsp {
                    if s.nl != 2 {
                        tgt.push(format!("rspfile = {}", esc_val(&rsp.path)));
                    }
                    if s.nl == 2 {
                        // $in_newline only exists in the scope of a rule's bindings
                        rule_text.push_str(&format!(
                            "  rspfile = {}\n  rspfile_content = RSP s{} r{}{} {}\n",
                            esc_val(&rsp.path),
                            s.id,
                            rsp.ver,
                            "+".repeat([4usize, 0, 7, 1, 3][(rsp.ver % 5) as usize]),
                            v("in_newline")
                        ));
                    } else {
                        tgt.push(format!("rspfile_content = {}", esc_val(&self.rsp_content(s).unwrap())));
                    }
                }
            } else {
                binds.push(format!("id = s{}", s.id));
                binds.push(format!("salt = v{}", s.salt));
                if !s.decor.is_empty() {
                    binds.push(format!("decor = {}", esc_val(&s.decor)));
                }
                if s.rsp.is_some() {
                    let rsp = s.rsp.as_ref().unwrap();
                    binds.push(format!("rsp = {}", esc_val(&rsp.path)));
                    binds.push(format!("rver = r{}{}", rsp.ver, "+".repeat([4usize, 0, 7, 1, 3][(rsp.ver % 5) as usize])));
                    if s.depmode == 1 {
                        binds.push(format!("depfile = {}", esc_val(&self.depfile_path(s).unwrap())));
                    }
                } else if s.depmode == 1 {
                    binds.push(format!("dfile = {}", esc_val(&self.depfile_path(s).unwrap())));
                }
            }
            if !s.phony {
                if s.depmode == 2 {
                    binds.push("deps = msvc".into());
                } else if s.depmode == 1 && !plain && sr.pct(30) {
                    binds.push("deps = gcc".into());
                }
                if let Some(p) = &s.pool {
                    if pool_var && rname == "r" {
                        binds.push(format!("pl = {}", p));
                    } else {
                        binds.push(format!("pool = {}", p));
                    }
                }
                if s.hide_success {
                    binds.push("hide_success = 1".into());
                }
                if s.generator && !plain && sr.pct(50) {
                    binds.push("generator = 1".into());
                }
            }
            if !plain {
                sr.shuffle(&mut binds);
            }
            for b in binds {
                l.push_str(if !plain && sr.pct(20) { "    " } else { "  " });
                l.push_str(&b);
                l.push('\n');
            }
            if !plain && sr.pct(15) {
                l.push('\n');
            }
            texts[dest].push_str(&rule_text);
            texts[dest].push_str(&l);
        }
        if !self.defaults.is_empty() {
            let mut dr = root.sub(3, 0);
            if !plain && dr.pct(50) {
                // one statement per name; a name may be made a default by the included /
                // subninja'd file that declares it (defaults accumulate over all files)
                for d in &self.defaults {
                    let q = esc_path(&respell(d, &mut dr));
                    let k = dest_of.get(d).cloned().unwrap_or(0);
                    let k = if k > 0 && dr.pct(60) { k } else { 0 };
                    texts[k].push_str(&format!("default {}\n", q));
                }
            } else {
                let ds: Vec<String> = self
                    .defaults
                    .iter()
                    .map(|d| esc_path(&if plain { d.clone() } else { respell(d, &mut dr) }))
                    .collect();
                texts[0].push_str(&format!("default {}\n", ds.join(" ")));
            }
        }
        texts[0].push_str(&tail_pools);
        if self.builddir.is_none() && !plain {
            for k in 0..ninc {
                if inc_kind[k] && root.sub(4, k as u64).pct(40) {
                    // a subninja file's bindings are its own: this must not move the log
                    texts[k + 1] = format!("builddir = scoped/bd{}\n{}", k, texts[k + 1]);
                }
            }
        }
        let mut files = vec![(self.manifest.clone(), texts[0].clone())];
        for k in 0..ninc {
            files.push((format!("{}.inc{}", self.manifest, k), texts[k + 1].clone()));
        }
        Rendered { files }
    }
}
