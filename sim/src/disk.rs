//! Sandbox file-system helpers.  All mtimes are set explicitly from the
//! simulator's logical clock, never read from the wall clock.
use std::os::unix::fs::MetadataExt;

pub const BASE: i64 = 1_000_000_000;

/// logical mtime: (tick, nsec)
pub type MT = (i64, i64);

pub fn set_mtime(p: &str, t: MT) {
    let c = std::ffi::CString::new(p).unwrap();
    let ts = [libc::timespec {
        tv_sec: BASE + t.0,
        tv_nsec: t.1,
    }; 2];
    unsafe {
        let r = libc::utimensat(libc::AT_FDCWD, c.as_ptr(), ts.as_ptr(), 0);
        assert_eq!(r, 0, "utimensat {}", p);
    }
}

pub fn mtime(p: &str) -> Option<MT> {
    std::fs::metadata(p)
        .ok()
        .map(|m| (m.mtime() - BASE, m.mtime_nsec()))
}

pub fn exists(p: &str) -> bool {
    std::fs::symlink_metadata(p).is_ok()
}

pub fn read(p: &str) -> Option<Vec<u8>> {
    std::fs::read(p).ok()
}

pub fn read_str(p: &str) -> Option<String> {
    std::fs::read(p)
        .ok()
        .map(|b| String::from_utf8_lossy(&b).into_owned())
}

pub fn write_with_dirs(p: &str, c: &[u8]) -> std::io::Result<()> {
    if let Some(i) = p.rfind('/') {
        std::fs::create_dir_all(&p[..i])?;
    }
    std::fs::write(p, c)
}

pub fn file_len(p: &str) -> Option<u64> {
    std::fs::metadata(p).ok().map(|m| m.len())
}

/// deterministic listing of the tree below cwd: (path, mtime or dir marker, content hash)
pub fn tree_listing() -> Vec<String> {
    fn walk(dir: &str, out: &mut Vec<String>) {
        let mut ents: Vec<String> = match std::fs::read_dir(if dir.is_empty() { "." } else { dir }) {
            Ok(rd) => rd
                .filter_map(|e| e.ok())
                .map(|e| e.file_name().to_string_lossy().into_owned())
                .collect(),
            Err(_) => return,
        };
        ents.sort();
        for e in ents {
            let p = if dir.is_empty() { e.clone() } else { format!("{}/{}", dir, e) };
            match std::fs::symlink_metadata(&p) {
                Ok(m) if m.is_dir() => {
                    out.push(format!("{}/", p));
                    walk(&p, out);
                }
                Ok(m) => {
                    let c = std::fs::read(&p).unwrap_or_default();
                    // rspfiles and the log are written by n2 with wall-clock mtimes: omit those
                    let stamped = !(p.ends_with(".rsp") || p.ends_with(".n2_db"));
                    out.push(format!(
                        "{} {} {:016x}",
                        p,
                        if stamped { format!("{}.{}", m.mtime() - BASE, m.mtime_nsec()) } else { "-".into() },
                        crate::rng::h64(&c)
                    ));
                }
                Err(_) => {}
            }
        }
    }
    let mut out = Vec::new();
    walk("", &mut out);
    out
}

/// Run `f` with fd 1 redirected to a memfd; returns what was written.
pub fn capture<R>(f: impl FnOnce() -> R) -> (R, Vec<u8>) {
    use std::io::{Read, Seek, Write};
    use std::os::fd::{AsRawFd, FromRawFd};
    let mut tmp = unsafe { std::fs::File::from_raw_fd(libc::memfd_create(c"cap".as_ptr(), libc::MFD_CLOEXEC)) };
    std::io::stdout().flush().unwrap();
    let saved = unsafe { libc::fcntl(1, libc::F_DUPFD_CLOEXEC, 3) };
    unsafe { libc::dup2(tmp.as_raw_fd(), 1) };
    let r = f();
    let _ = std::io::stdout().flush();
    unsafe {
        libc::dup2(saved, 1);
        libc::close(saved);
    }
    let mut v = Vec::new();
    tmp.rewind().unwrap();
    tmp.read_to_end(&mut v).unwrap();
    (r, v)
}
