//! Scenario execution: sandbox set-up, edits, invocations of the real
//! `n2::run::run()` under the simulator, and the oracles evaluated on the
//! recorded history.
use crate::disk;
use crate::host::*;
use crate::model::*;
use crate::project::*;
use crate::rng::{h64, Rng};
use crate::scenario::*;
use n2::verif::SimCrash;
use std::cell::RefCell;
use std::collections::{BTreeMap, BTreeSet, HashMap};
use std::rc::Rc;

#[derive(Debug, Clone)]
pub enum Outcome {
    Exit(i32, String),
    Crash,
    Panic(String),
}

#[derive(Default)]
pub struct RunResult {
    pub violations: Vec<(usize, Violation)>,
    pub invocations: usize,
    pub commands: usize,
    pub stats: BTreeMap<String, u64>,
    pub trace_hash: u64,
    /// hash of the normalised start/finish sequence of every invocation (distinct-trace measure)
    pub trace_keys: Vec<(u64, bool)>,
    pub shape_key: u64,
    pub state_vectors: Vec<u64>,
    pub log: Vec<String>,
    pub ticks: i64,
    /// (operation index, sizes of the log writes of that invocation)
    pub inv_db_writes: Vec<(usize, Vec<usize>)>,
}

thread_local! {
    pub static LAST_PANIC: RefCell<String> = RefCell::new(String::new());
    pub static IN_N2: std::cell::Cell<bool> = std::cell::Cell::new(false);
}

pub fn install_panic_hook() {
    std::panic::set_hook(Box::new(|info| {
        if info.payload().is::<SimCrash>() {
            return;
        }
        let msg = if let Some(s) = info.payload().downcast_ref::<String>() {
            s.clone()
        } else if let Some(s) = info.payload().downcast_ref::<&str>() {
            s.to_string()
        } else {
            "?".into()
        };
        let loc = info
            .location()
            .map(|l| format!("{}:{}", l.file().rsplit('/').next().unwrap_or(""), l.line()))
            .unwrap_or_default();
        if !IN_N2.with(|c| c.get()) {
            eprintln!("HARNESS PANIC: {} at {}", msg, info.location().map(|l| l.to_string()).unwrap_or_default());
        }
        LAST_PANIC.with(|p| *p.borrow_mut() = format!("{} at {}", msg, loc));
    }));
}

pub struct Sandbox {
    pub root: String,
}
impl Sandbox {
    pub fn new(tag: &str) -> Sandbox {
        let base = if std::path::Path::new("/dev/shm").is_dir() {
            "/dev/shm".to_string()
        } else {
            std::env::temp_dir().to_string_lossy().into_owned()
        };
        let root = format!("{}/n2sim-{}-{}", base, std::process::id(), tag);
        let _ = std::fs::remove_dir_all(&root);
        std::fs::create_dir_all(format!("{}/w", root)).expect("sandbox");
        Sandbox { root }
    }
    pub fn reset(&self) {
        std::env::set_current_dir("/").unwrap();
        let _ = std::fs::remove_dir_all(format!("{}/w", self.root));
        std::fs::create_dir_all(format!("{}/w", self.root)).expect("sandbox");
        std::env::set_current_dir(format!("{}/w", self.root)).unwrap();
    }
}
impl Drop for Sandbox {
    fn drop(&mut self) {
        let _ = std::env::set_current_dir("/");
        let _ = std::fs::remove_dir_all(&self.root);
    }
}

fn write_src(m: &mut Model, i: usize, t: Option<disk::MT>) {
    let c = m.disk.src_content(i);
    let n = m.disk.srcs[i].name.clone();
    disk::write_with_dirs(&n, c.as_bytes()).unwrap();
    let t = t.unwrap_or_else(|| m.next_tick());
    disk::set_mtime(&n, t);
}

fn sync_manifest(m: &mut Model) {
    let r = m.disk.render();
    for (name, text) in &r.files {
        disk::write_with_dirs(name, text.as_bytes()).unwrap();
        let t = m.next_tick();
        disk::set_mtime(name, t);
    }
}

/// Apply one edit operation to the sandbox and the model.
fn apply_edit(sh: &mut Shared, op: &Op, log: &mut Vec<String>) -> bool {
    let m = &mut sh.model;
    match op {
        Op::EditSrc { src, backwards } => {
            if !apply_abstract(&mut m.disk, op) {
                return false;
            }
            let t = if *backwards {
                m.tick += 1;
                Some((-m.tick, 0))
            } else {
                None
            };
            write_src(m, *src, t);
            log.push(format!("edit {}{}", m.disk.srcs[*src].name, if *backwards { " (older mtime)" } else { "" }));
        }
        Op::TouchSrc { src } => {
            if !apply_abstract(&mut m.disk, op) {
                return false;
            }
            let t = m.next_tick();
            disk::set_mtime(&m.disk.srcs[*src].name, t);
            log.push(format!("touch {}", m.disk.srcs[*src].name));
        }
        Op::OddMtime { src, kind } => {
            if !apply_abstract(&mut m.disk, op) {
                return false;
            }
            let n = m.disk.srcs[*src].name.clone();
            // a content change always comes with an mtime change (standing assumption):
            // odd stamps are still fresh values never used for this file before
            let t = match kind {
                0 => (m.tick + 1_000_000_000, 0),
                1 => {
                    let cur = disk::mtime(&n).unwrap_or((0, 0));
                    if cur.1 + 1 < 1_000_000_000 { (cur.0, cur.1 + 1) } else { (cur.0 + 1, 0) }
                }
                _ => (m.tick, 999_999_999),
            };
            m.tick += 1;
            disk::set_mtime(&n, t);
            log.push(format!("odd mtime {} kind {}", n, kind));
        }
        Op::RmOut { name } => {
            if std::fs::remove_file(name).is_err() {
                return false;
            }
            log.push(format!("rm {}", name));
        }
        Op::TamperOut { name } => {
            if !disk::exists(name) {
                return false;
            }
            std::fs::write(name, "tampered").unwrap();
            let t = m.next_tick();
            disk::set_mtime(name, t);
            log.push(format!("tamper {}", name));
        }
        Op::TouchOut { name } => {
            if !disk::exists(name) {
                return false;
            }
            let t = m.next_tick();
            disk::set_mtime(name, t);
            log.push(format!("touch output {}", name));
        }
        Op::ToggleInc { src, .. } | Op::SetIncs { src, .. } => {
            if !apply_abstract(&mut m.disk, op) {
                return false;
            }
            if m.disk.srcs[*src].exists {
                write_src(m, *src, None);
            }
            log.push(match op {
                Op::SetIncs { src, incs } => format!("set include list of source {} to {} files", src, incs.len()),
                o => format!("{:?}", o),
            });
        }
        Op::DelSrc { src } => {
            if !apply_abstract(&mut m.disk, op) {
                return false;
            }
            let _ = std::fs::remove_file(&m.disk.srcs[*src].name);
            log.push(format!("delete source {}", m.disk.srcs[*src].name));
        }
        Op::RestoreSrc { src } => {
            if !apply_abstract(&mut m.disk, op) {
                return false;
            }
            write_src(m, *src, None);
            log.push(format!("restore source {}", m.disk.srcs[*src].name));
        }
        Op::Salt { .. }
        | Op::Decor { .. }
        | Op::RspVer { .. }
        | Op::Respell { .. }
        | Op::AddStep { .. }
        | Op::RemoveStep { .. }
        | Op::MoveOut { .. }
        | Op::SwapOut { .. }
        | Op::RenameOut { .. }
        | Op::AddOut { .. }
        | Op::SetDefaults { .. }
        | Op::SetPoolDepth { .. } => {
            if m.disk.steps.iter().any(|s| s.generator && !s.removed) {
                return false; // with a generator, the manifest is edited through it only
            }
            if !apply_abstract(&mut m.disk, op) {
                return false;
            }
            sync_manifest(m);
            log.push(match op {
                Op::AddStep { step, .. } => format!("add step s{}", step.id),
                o => format!("{:?}", o),
            });
        }
        Op::DeleteDb => {
            let p = m.disk.db_path();
            if std::fs::remove_file(&p).is_err() {
                return false;
            }
            m.recs.clear();
            m.ever_logged.clear();
            m.log_torn_ever = false;
            m.inv_since_tear = None;
            m.orphan_cut = None;
            sh.stats.bump("fault.log_deleted");
            log.push("delete .n2_db".into());
        }
        Op::TruncDb { num, exact } => {
            let p = m.disk.db_path();
            let len = match disk::file_len(&p) {
                Some(l) => l,
                None => return false,
            };
            let new = match exact {
                Some(e) => (*e as u64).min(len),
                None => len * (*num as u64) / 1000,
            };
            if new == len {
                return false;
            }
            let f = std::fs::OpenOptions::new().write(true).open(&p).unwrap();
            f.set_len(new).unwrap();
            m.cut_log(new);
            m.log_torn_ever = true;
            m.inv_since_tear = Some(0);
            sh.stats.bump("fault.log_truncated_between_invocations");
            log.push(format!("truncate .n2_db {} -> {} bytes", len, new));
        }
        Op::SetVariant { variant } => {
            if *variant >= m.variants.len() {
                return false;
            }
            let gi = match m.disk.src("gen.in") {
                Some(i) => i,
                None => return false,
            };
            m.gen_input_variant = *variant;
            m.disk.srcs[gi].ver += 1;
            m.disk.srcs[gi].tag = format!("#variant={}", variant);
            if m.disk.srcs[gi].exists {
                write_src(m, gi, None);
            }
            log.push(format!("generator input now names variant {}", variant));
        }
        Op::Invoke(_) => unreachable!(),
    }
    true
}

fn invoke(sh: &Rc<RefCell<Shared>>, spec: &InvokeSpec, root: &Rng, sandbox: &Sandbox) -> (Outcome, Vec<u8>) {
    {
        let mut s = sh.borrow_mut();
        s.reset_invocation();
        s.model.mem = s.model.disk.clone();
        s.adopt = spec.restat;
        s.db_path = s.model.disk.db_path();
    }
    let mut hr = root.sub(spec.sub, 77);
    // hold policy: every validation target plus a random subset
    let mut held = Vec::new();
    if spec.policy == 6 {
        let s = sh.borrow();
        let p = &s.model.mem;
        for (_, st) in p.live_steps() {
            for v in &st.val {
                if let Some(pi) = p.producer(v) {
                    held.push(p.steps[pi].id);
                }
            }
        }
        for (_, st) in p.live_steps() {
            if hr.pct(25) {
                held.push(st.id);
            }
        }
    }
    let h = SimHost {
        sh: sh.clone(),
        spec: spec.clone(),
        rng: hr,
        pend: vec![],
        chan: vec![],
        held,
        epoch: 0,
        real_spawn: false,
        cur: None,
    };
    if spec.use_c {
        std::env::set_current_dir(&sandbox.root).unwrap();
    }
    // Each invocation runs on a fresh OS thread, joined before anything else
    // happens: a real n2 invocation is a fresh process, so thread-local (per
    // process) state inside n2 must not survive from one invocation to the
    // next.  Nothing runs concurrently: the simulator stays single-threaded.
    struct Sendable<T>(T);
    unsafe impl<T> Send for Sendable<T> {}
    let job = Sendable((h, spec.clone(), root.clone(), sandbox.root.clone()));
    let res = std::thread::Builder::new()
        .stack_size(8 << 20)
        .spawn(move || {
            let job = job;
            let (h, spec, root, sroot) = job.0;
            Sendable(invoke_on_this_thread(h, &spec, &root, &sroot))
        })
        .expect("spawn invocation thread")
        .join()
        .expect("invocation thread died");
    let (r, out, last_panic) = res.0;
    sh.borrow_mut().finalize_pending();
    let o = match r {
        Ok(Ok(c)) => Outcome::Exit(c, String::new()),
        Ok(Err(e)) => Outcome::Exit(1, format!("{}", e)),
        Err(p) => {
            if p.is::<SimCrash>() {
                Outcome::Crash
            } else {
                Outcome::Panic(last_panic)
            }
        }
    };
    (o, out)
}

type N2Result = std::thread::Result<anyhow::Result<i32>>;

fn invoke_on_this_thread(h: SimHost, spec: &InvokeSpec, root: &Rng, sroot: &str) -> (N2Result, Vec<u8>, String) {
    n2::verif::set_interrupted(false);
    LAST_PANIC.with(|p| p.borrow_mut().clear());
    n2::verif::install(Box::new(h));
    IN_N2.with(|c| c.set(true));
    let (r, out) = disk::capture(|| std::panic::catch_unwind(|| n2::run::run()));
    // n2 is gone; commands it left running either finish on their own or die with it
    let _ = std::env::set_current_dir(format!("{}/w", sroot));
    if spec.faults.orphans_finish || !matches!(r, Err(_)) {
        // (after a normal return the still-running children of an interrupted /
        // budget-stopped build keep running: let a seeded subset finish)
        let mut rr = root.sub(spec.sub, 99);
        while n2::verif::pending_tasks() > 0 {
            if rr.pct(70) {
                let _ = std::panic::catch_unwind(|| n2::verif::run_pending_task(0));
            } else {
                break;
            }
        }
    }
    drop(n2::verif::uninstall());
    IN_N2.with(|c| c.set(false));
    n2::verif::set_interrupted(false);
    (r, out, LAST_PANIC.with(|p| p.borrow().clone()))
}

fn pool_of(p: &Project, sid: usize) -> Option<String> {
    p.step_by_id(sid).and_then(|si| p.steps[si].pool.clone()).filter(|x| !x.is_empty())
}

struct Segment<'a> {
    proj: &'a Project,
    wanted: BTreeSet<usize>, // step indices in proj
    evs: &'a [Ev],
}

/// Oracles over one invocation (all properties; the caller filters by property).
fn check_invocation(
    sh: &mut Shared,
    p1: &Project,
    spec: &InvokeSpec,
    outcome: &Outcome,
    stdout: &[u8],
) -> Vec<Violation> {
    let mut v: Vec<Violation> = std::mem::take(&mut sh.viol);
    let evs = sh.ev.clone();
    let reload_at = evs.iter().position(|e| *e == Ev::Reload);
    let p2 = sh.model.mem.clone(); // project n2 had in memory at the end
    let injected = sh.io_err_fired || sh.crash_fired;

    // ---- target resolution (Appendix A.4) against the project of the final phase
    let manifest = p2.manifest.clone();
    let mentioned = {
        let mut m = p2.mentioned();
        m.insert(manifest.clone());
        m
    };
    let ctargets: Vec<String> = spec.targets.iter().map(|t| canon(t)).collect();
    let unknown: Vec<String> = ctargets.iter().filter(|t| !mentioned.contains(*t)).cloned().collect();
    let bogus = !unknown.is_empty() && !spec.restat;
    let targets2: Vec<String> = if !ctargets.is_empty() {
        ctargets.iter().filter(|t| mentioned.contains(*t) && **t != manifest).cloned().collect()
    } else if !p2.defaults.is_empty() {
        p2.defaults.clone()
    } else {
        p2.mentioned().into_iter().filter(|f| *f != manifest).collect()
    };
    let w1_p1 = p1.closure(&[p1.manifest.clone()]);
    let w1_ids: BTreeSet<usize> = w1_p1.iter().map(|&i| p1.steps[i].id).collect();
    let mut w2 = p2.closure(&targets2);
    let w2_full = w2.clone();
    if bogus {
        // an unknown name rejects the whole request: nothing of phase 2 may start
        w2.clear();
    }
    let w2_ids: BTreeSet<usize> = w2.iter().map(|&i| p2.steps[i].id).collect();
    let phase1_ran_ok = evs[..reload_at.unwrap_or(evs.len())]
        .iter()
        .any(|e| matches!(e, Ev::Deliver(s, 0) if w1_ids.contains(s)));

    // ---- C17: reload iff a command of the manifest's closure succeeded in phase 1
    if !matches!(outcome, Outcome::Crash | Outcome::Panic(_)) && !injected {
        let first_fail_p1 = evs.iter().any(|e| matches!(e, Ev::Deliver(s, t) if *t != 0 && w1_ids.contains(s)));
        if reload_at.is_some() && !phase1_ran_ok {
            v.push(viol("C17", "reload-without-regen", "manifest was read twice although no command of its closure succeeded".into()));
        }
        if reload_at.is_none() && phase1_ran_ok && !first_fail_p1 {
            // phase 1 succeeded with work done => must reload before going on
            let later = evs.iter().any(|e| matches!(e, Ev::Start(s) if !w1_ids.contains(s)));
            let exit0 = matches!(outcome, Outcome::Exit(0, _));
            if later || exit0 {
                v.push(viol("C17", "no-reload", "a command of the manifest's closure ran but the manifest was not reloaded before continuing".into()));
            }
        }
    }

    // ---- segments
    let seg1_end = reload_at.unwrap_or(evs.len());
    let segs: Vec<Segment> = if reload_at.is_some() {
        vec![
            Segment { proj: p1, wanted: w1_p1.clone(), evs: &evs[..seg1_end] },
            Segment { proj: &p2, wanted: w2.clone(), evs: &evs[seg1_end + 1..] },
        ]
    } else {
        let mut w = w1_p1.clone();
        w.extend(w2.iter().cloned());
        vec![Segment { proj: p1, wanted: w, evs: &evs[..] }]
    };

    let mut nfail_total = 0usize;
    let mut ok_total = 0usize;
    let mut interrupted_any = false;
    let mut started_all: Vec<usize> = Vec::new();
    let mut failed_ids: BTreeSet<usize> = BTreeSet::new();
    let mut budget_left = spec.k;
    let mut stopped = false;
    let mut any_start_w1 = false;
    for (segi, seg) in segs.iter().enumerate() {
        let proj = seg.proj;
        let cyc = proj.has_cycle_in(&seg.wanted);
        let idx = |sid: usize| proj.step_by_id(sid);
        let mut running: BTreeSet<usize> = BTreeSet::new();
        let mut started: Vec<usize> = Vec::new();
        let mut failed: BTreeSet<usize> = BTreeSet::new();
        let mut last_counts: Option<[usize; 6]> = None;
        let mut states: HashMap<usize, (u8, bool)> = HashMap::new();
        // a new Work (after reload) starts from scratch; without reload states persist
        for (ei, e) in seg.evs.iter().enumerate() {
            match e {
                Ev::Start(sid) => {
                    let sid = *sid;
                    let si = match idx(sid) {
                        Some(i) => i,
                        None => continue,
                    };
                    if w1_ids.contains(&sid) && segi == 0 {
                        any_start_w1 = true;
                    }
                    if stopped {
                        v.push(viol("C05", "start-after-stop", format!("s{} started after the failure budget was reached / an interruption was delivered", sid)));
                        if interrupted_any {
                            v.push(viol("C16", "start-after-interrupt", format!("s{} started after a command was terminated by SIGINT: an interruption must stop the build", sid)));
                        }
                    }
                    if spec.restat {
                        v.push(viol("C03", "restat-ran-command", format!("s{} started under -t restat", sid)));
                    }
                    if bogus && (segi == 1 || !w1_ids.contains(&sid)) {
                        let code = if unknown.iter().all(|u| sh.model.ever_logged.contains(u)) { "log-only-name-accepted" } else { "start-despite-unknown-target" };
                        v.push(viol("C18", code, format!("s{} started although target(s) {:?} are not in the manifest", sid, unknown)));
                    }
                    if !seg.wanted.contains(&si) && !(bogus && !w1_ids.contains(&sid)) {
                        v.push(viol("C18", "start-outside-closure", format!("s{} started but is not needed by the requested targets {:?}", sid, targets2)));
                    }
                    if segi == 0 && reload_at.is_some() && !w1_ids.contains(&sid) {
                        v.push(viol("C17", "phase-order", format!("s{} (outside the manifest's closure) started before the manifest was regenerated and reloaded", sid)));
                    }
                    if segi == 0 && reload_at.is_none() && !w1_ids.contains(&sid) && any_start_w1 {
                        v.push(viol("C17", "continue-after-regen", format!("s{} started after commands of the manifest's closure ran, without a reload", sid)));
                    }
                    if proj.pool_depth(&proj.steps[si].pool).is_none() {
                        v.push(viol("C04", "undeclared-pool-started", format!("s{} names undeclared pool {:?} but was started", sid, proj.steps[si].pool)));
                    }
                    if started.contains(&sid) {
                        v.push(viol("C01", "started-twice", format!("s{} started twice in one phase", sid)));
                    }
                    if started_all.contains(&sid) && !started.contains(&sid) && reload_at.is_none() {
                        v.push(viol("C01", "started-twice", format!("s{} started in both phases without a reload", sid)));
                    }
                    let anc = proj.order_anc(si);
                    if cyc && anc.contains(&si) {
                        v.push(viol("C06", "cycle-step-started", format!("s{} is on a dependency cycle but was started", sid)));
                    }
                    for &a in &anc {
                        let aid = proj.steps[a].id;
                        if running.contains(&aid) {
                            v.push(viol("C01", "ancestor-running", format!("s{} started while s{} (which produces one of its ordering inputs) is still running", sid, aid)));
                        }
                        if failed.contains(&aid) {
                            v.push(viol("C05", "ancestor-failed", format!("s{} started although s{} failed in this invocation", sid, aid)));
                        }
                        // (b) ancestors that start at all in this phase must have been delivered ok before
                        let a_start = seg.evs.iter().position(|x| matches!(x, Ev::Start(y) if *y == aid));
                        if let Some(ap) = a_start {
                            let a_ok = seg.evs.iter().position(|x| matches!(x, Ev::Deliver(y, 0) if *y == aid));
                            if !(ap < ei && a_ok.map(|p| p < ei).unwrap_or(false)) && !running.contains(&aid) && !failed.contains(&aid) {
                                v.push(viol("C01", "before-ancestor", format!("s{} started before s{} (ordering ancestor that runs in this phase) completed", sid, aid)));
                            }
                        }
                    }
                    // work conservation: n2 never blocks while s is startable.  Only a wait
                    // for a step that s reaches through validation edges (and not through
                    // ordering edges) is a property violation; other idle waits are counted.
                    {
                        let t_ready = seg.evs[..ei]
                            .iter()
                            .rposition(|x| matches!(x, Ev::Deliver(y, 0) if idx(*y).map(|i| anc.contains(&i)).unwrap_or(false)))
                            .map(|p| p as isize)
                            .unwrap_or(-1);
                        let reach_all = proj.closure(&proj.steps[si].outs.clone());
                        let mut run2: Vec<usize> = Vec::new();
                        for (qi, q) in seg.evs[..ei].iter().enumerate() {
                            match q {
                                Ev::Start(x) => run2.push(*x),
                                Ev::Deliver(x, _) => {
                                    if (qi as isize) > t_ready {
                                        let d = proj.pool_depth(&proj.steps[si].pool).unwrap_or(0);
                                        let mypool = pool_of(proj, sid);
                                        let inpool = run2.iter().filter(|&&y| pool_of(proj, y) == mypool).count();
                                        if run2.len() < spec.j && (d == 0 || inpool < d) {
                                            let via_validation = idx(*x).map(|xi| reach_all.contains(&xi) && !anc.contains(&xi) && xi != si).unwrap_or(false);
                                            if via_validation {
                                                let d = format!("s{} was startable (ordering inputs settled, -j and its pool had room) but n2 waited for s{}, which it reaches only through a validation edge", sid, x);
                                                v.push(viol("C01", "waited-for-validation", d.clone()));
                                                v.push(viol("C06", "waited-for-validation", d));
                                            } else {
                                                sh.stats.bump("obs.idle_wait_while_startable");
                                            }
                                        }
                                    }
                                    if let Some(p) = run2.iter().position(|y| y == x) {
                                        run2.remove(p);
                                    }
                                }
                                _ => {}
                            }
                        }
                    }
                    started.push(sid);
                    started_all.push(sid);
                    running.insert(sid);
                    if running.len() > spec.j {
                        v.push(viol("C04", "j-exceeded", format!("{} commands running with -j {}", running.len(), spec.j)));
                    }
                    if running.len() == spec.j {
                        sh.stats.bump("probe.j_saturated");
                    }
                    if let Some(d) = proj.pool_depth(&proj.steps[si].pool) {
                        if d > 0 {
                            let mypool = pool_of(proj, sid);
                            let n = running.iter().filter(|&&x| pool_of(proj, x) == mypool).count();
                            if n > d {
                                v.push(viol("C04", "pool-depth-exceeded", format!("pool {:?}: {} running, depth {}", mypool, n, d)));
                            }
                            if n == d {
                                sh.stats.bump("probe.pool_saturated");
                                if running.len() < spec.j {
                                    sh.stats.bump("probe.pool_full_while_j_has_room");
                                }
                            }
                        }
                    }
                }
                Ev::Deliver(sid, t) => {
                    running.remove(sid);
                    if *t == 0 {
                        ok_total += 1;
                    } else {
                        failed.insert(*sid);
                        failed_ids.insert(*sid);
                        if *t == 2 {
                            interrupted_any = true;
                            stopped = true;
                        } else {
                            nfail_total += 1;
                            if let Some(b) = &mut budget_left {
                                *b = b.saturating_sub(1);
                                if *b == 0 {
                                    stopped = true;
                                    if !running.is_empty() {
                                        sh.stats.bump("probe.budget_reached_with_commands_running");
                                    }
                                }
                            }
                        }
                    }
                }
                Ev::State { bid, phony, next, .. } => {
                    states.insert(*bid, (*next, *phony));
                }
                Ev::Update(c) => {
                    if c[3] != running.len() {
                        v.push(viol("C19", "running-count", format!("reported {} running, {} commands actually executing", c[3], running.len())));
                    }
                    if let Some(l) = last_counts {
                        if c[4] + c[5] < l[4] + l[5] {
                            v.push(viol("C19", "finished-decreased", format!("finished count went from {} to {}", l[4] + l[5], c[4] + c[5])));
                        }
                        let tot = |x: &[usize; 6]| x.iter().sum::<usize>();
                        if tot(c) < tot(&l) {
                            v.push(viol("C19", "total-shrank", format!("total went from {} to {}", tot(&l), tot(c))));
                        }
                    }
                    // each non-phony wanted step counted in exactly its state
                    let mut mine = [0usize; 6];
                    for (_, (s, ph)) in states.iter() {
                        if !*ph && *s >= 1 {
                            mine[(*s - 1) as usize] += 1;
                        }
                    }
                    if mine != *c {
                        v.push(viol("C19", "counts-vs-states", format!("reported counts {:?} but steps are in states {:?} (want,ready,queued,running,done,failed)", c, mine)));
                    }
                    last_counts = Some(*c);
                }
                _ => {}
            }
        }
        // at exit 0 the steps n2 considered are exactly the needed ones, all settled
        if segi + 1 == segs.len() && matches!(outcome, Outcome::Exit(0, _)) && !injected && !cyc && !bogus {
            let mut considered: BTreeMap<usize, (u8, bool)> = BTreeMap::new();
            for e in seg.evs.iter() {
                if let Ev::State { sid: Some(sid), phony, next, .. } = e {
                    considered.insert(*sid, (*next, *phony));
                }
            }
            let expect: BTreeSet<usize> = seg.wanted.iter().map(|&i| proj.steps[i].id).collect();
            for (sid, (st, phony)) in &considered {
                if !expect.contains(sid) {
                    if !*phony {
                        v.push(viol("C19", "total-vs-wanted", format!("s{} is counted in the totals but is not needed by the request", sid)));
                    }
                    v.push(viol("C18", "considered-outside-closure", format!("s{} was made part of the build but is not needed by the request {:?}", sid, targets2)));
                }
                if *st != 5 {
                    v.push(viol("C06", "unsettled-at-exit0", format!("exit status 0 but s{} ended in state {}", sid, st)));
                }
            }
            for sid in &expect {
                if !considered.contains_key(sid) {
                    v.push(viol("C18", "closure-step-not-considered", format!("s{} is needed by the request but was never considered", sid)));
                }
            }
        }
    }

    // ---- C03: a successful step whose files are all present gets its completion record
    if !injected && !matches!(outcome, Outcome::Crash | Outcome::Panic(_)) {
        for sid in &sh.unrecorded {
            v.push(viol("C03", "no-record-after-success", format!("s{} completed successfully with all inputs and outputs present, but nothing was appended to the log: it will be re-run although nothing changed", sid)));
        }
    }

    // ---- C03 online: every started step was dirty at its start
    for (s, d) in &sh.started_dirty {
        if d.is_none() {
            v.push(viol("C03", "started-clean", format!("s{} was started although nothing it depends on changed since its record", s)));
        }
    }

    // ---- outcome
    let text = String::from_utf8_lossy(stdout).into_owned();
    let final_wanted: BTreeSet<usize> = {
        // judged on the final in-memory project: phase-2 closure plus the manifest's own closure
        let mut w = w2_full.clone();
        if reload_at.is_none() {
            w.extend(p2.closure(&[manifest.clone()]));
        }
        w
    };
    let cyc_final = p2.has_cycle_in(&final_wanted) || p1.has_cycle_in(&w1_p1);
    match outcome {
        Outcome::Panic(p) => {
            if p.contains("db.rs") {
                if sh.model.log_torn_ever {
                    v.push(viol("C07", "log-load-panic", format!("n2 panicked while reading a log that was torn earlier: {}", p)));
                    if sh.model.inv_since_tear.map(|n| n >= 1).unwrap_or(false) {
                        v.push(viol("C08", "log-load-panic-after-recovery", format!("the log was loaded and appended to by a fault-free invocation after the tear, and now cannot be read: {}", p)));
                    }
                } else {
                    v.push(viol("C08", "log-load-panic", format!("n2 panicked while reading a log it wrote without any fault: {}", p)));
                }
            } else {
                v.push(viol("C06", "panic", format!("n2 panicked: {}", p)));
            }
        }
        Outcome::Crash => {}
        Outcome::Exit(code, err) => {
            let missing_src = |proj: &Project, w: &BTreeSet<usize>| -> bool {
                w.iter().any(|&si| {
                    let s = &proj.steps[si];
                    !s.phony && s.exp.iter().chain(&s.imp).any(|f| proj.producer(f).is_none() && !disk::exists(f))
                })
            };
            let miss = missing_src(&p2, &final_wanted) || missing_src(p1, &w1_p1);
            let nopool = |proj: &Project, w: &BTreeSet<usize>| -> Vec<usize> {
                w.iter().cloned().filter(|&si| !proj.steps[si].phony && proj.pool_depth(&proj.steps[si].pool).is_none()).collect()
            };
            let nopool_steps = nopool(&p2, &final_wanted);
            let nopool_any = !nopool_steps.is_empty() || !nopool(p1, &w1_p1).is_empty();
            let any_fail = nfail_total > 0 || interrupted_any;
            if *code == 0 {
                if any_fail {
                    v.push(viol("C05", "exit0-after-failure", format!("exit status 0 although {} command(s) failed / were interrupted", nfail_total + interrupted_any as usize)));
                }
                if sh.sigint_raised {
                    v.push(viol("C16", "exit0-after-sigint", "exit status 0 although SIGINT was received".into()));
                }
                if sh.io_err_fired {
                    v.push(viol("C06", "exit0-after-io-error", "exit status 0 although an I/O call n2 made failed".into()));
                }
                if cyc_final {
                    v.push(viol("C06", "cycle-accepted", "exit status 0 although the requested steps contain a dependency cycle".into()));
                }
                if bogus {
                    let code = if unknown.iter().all(|u| sh.model.ever_logged.contains(u)) { "log-only-name-accepted" } else { "unknown-target-accepted" };
                    v.push(viol("C18", code, format!("exit status 0 although {:?} occurs nowhere in the manifest", unknown)));
                }
                if miss && !spec.restat {
                    v.push(viol("C05", "exit0-missing-source", "exit status 0 although a needed step has a missing input no step produces".into()));
                }
                for &si in &nopool_steps {
                    if let Some(r) = sh.model.dirty(&p2, si).filter(|_| sh.model.judgeable(&p2, si)) {
                        if !spec.restat {
                            v.push(viol("C04", "undeclared-pool-ignored", format!("exit status 0 but s{} (undeclared pool) needed to run: {}", p2.steps[si].id, r)));
                        }
                    }
                }
                if !any_fail && !bogus && !cyc_final && !injected {
                    // C02/C03 at exit: nothing dirty left, contents are what a clean build gives
                    let mut memo = HashMap::new();
                    for &si in &final_wanted {
                        let s = &p2.steps[si];
                        if s.phony {
                            continue;
                        }
                        if !started_all.contains(&s.id) && !spec.restat && sh.model.judgeable(&p2, si) {
                            if let Some(r) = sh.model.dirty(&p2, si) {
                                let prop = if r.contains("deps") { "C09" } else { "C02" };
                                v.push(viol(prop, "skipped-dirty", format!("s{} was not run although it is out of date ({})", s.id, r)));
                            }
                        }
                        if s.generator || spec.restat {
                            continue;
                        }
                        for o in &s.outs {
                            if sh.model.content_unknown || sh.model.depends_on_taint(&p2, o, &mut BTreeSet::new()) {
                                continue;
                            }
                            let want = p2.clean(o, &mut memo);
                            let got = disk::read_str(o).unwrap_or_else(|| "MISSING".into());
                            if want != got && want != "UNBUILDABLE" {
                                v.push(viol("C02", "stale-content", format!("{} (output of s{}) differs from what a clean build produces", o, s.id)));
                            }
                        }
                    }
                }
                // an out-of-date manifest must be regenerated first (C17)
                if !any_fail && !bogus && !cyc_final && !injected && !spec.restat && reload_at.is_none() {
                    for &si in &w1_p1 {
                        let s = &p1.steps[si];
                        if !s.phony && !started_all.contains(&s.id) && sh.model.judgeable(p1, si) {
                            if let Some(r) = sh.model.dirty(p1, si) {
                                v.push(viol("C17", "manifest-not-regenerated", format!("s{} (needed to bring the manifest up to date) is out of date ({}) but was not run", s.id, r)));
                            }
                        }
                    }
                }
                // the manifest on disk was regenerated but n2 kept judging against the old text:
                // C02 speaks about the current manifest and command lines
                if !any_fail && !bogus && !cyc_final && !injected && !spec.restat && sh.model.disk != p2 {
                    let pd = sh.model.disk.clone();
                    let ment = pd.mentioned();
                    let tg: Vec<String> = if !ctargets.is_empty() {
                        ctargets.iter().filter(|t| ment.contains(*t) && **t != pd.manifest).cloned().collect()
                    } else if !pd.defaults.is_empty() {
                        pd.defaults.clone()
                    } else {
                        ment.iter().filter(|f| **f != pd.manifest).cloned().collect()
                    };
                    let wd = pd.closure(&tg);
                    if !pd.has_cycle_in(&wd) {
                        let mut memo = HashMap::new();
                        for &si in &wd {
                            let s = &pd.steps[si];
                            if s.phony || s.generator {
                                continue;
                            }
                            for o in &s.outs {
                                if sh.model.content_unknown || sh.model.depends_on_taint(&pd, o, &mut BTreeSet::new()) {
                                    continue;
                                }
                                let want = pd.clean(o, &mut memo);
                                let got = disk::read_str(o).unwrap_or_else(|| "MISSING".into());
                                if want != got && want != "UNBUILDABLE" {
                                    v.push(viol("C02", "stale-vs-current-manifest", format!("{} (output of s{}) is not what the manifest now on disk (regenerated during this invocation) would produce", o, s.id)));
                                }
                            }
                        }
                    }
                }
                let n = ok_total;
                let want_line = if n == 0 {
                    "n2: no work to do\n".to_string()
                } else {
                    format!("n2: ran {} task{}, now up to date\n", n, if n == 1 { "" } else { "s" })
                };
                if !text.ends_with(&want_line) {
                    let d = format!("{} command(s) completed successfully: expected final line {:?}, got {:?}", n, want_line, text.lines().last());
                    v.push(viol("C19", "summary-line", d.clone()));
                    if n == 0 {
                        v.push(viol("C03", "summary-line", d));
                    }
                }
            } else {
                // S9 (known finding): n2 validates the discovered dependencies of a *recorded* run
                // against the current graph before it knows whether that record is still good.
                // A record that now belongs to a step with no ordering path to a generated file
                // it names (the manifest was edited since) aborts the build, in every invocation.
                let stale_gen_dep = err
                    .split("used generated file ")
                    .nth(1)
                    .and_then(|r| r.split(", but has no dependency path to it").next())
                    .map(|n| n.to_string())
                    .filter(|name| {
                        [&p2, p1].iter().any(|p| {
                            p.live_steps().any(|(si, _)| {
                                sh.model.rec_for(p, si).map(|r| r.deps.contains(name)).unwrap_or(false)
                                    && p.producer(name).map(|pi| pi == si || !p.order_anc(si).contains(&pi)).unwrap_or(false)
                            })
                        })
                    });
                if let Some(name) = &stale_gen_dep {
                    v.push(viol("C06", "stale-record-generated-dep", format!("no command failed, yet the build is refused: a log record applies to a step that (in the current manifest) has no ordering path to {:?} (or produces it itself), a generated file the record lists as discovered dependency: {}", name, err)));
                }
                let legit = any_fail || miss || nopool_any || cyc_final || bogus || sh.io_err_fired || sh.sigint_raised || stale_gen_dep.is_some();
                // targets must be resolved against the regenerated manifest: rejecting a name
                // before a dirty generator even ran is C17's business
                if err.starts_with("unknown path requested") && !injected && !spec.restat && started_all.is_empty() {
                    let dirty_gen: Vec<usize> = w1_p1
                        .iter()
                        .cloned()
                        .filter(|&si| !p1.steps[si].phony && sh.model.judgeable(p1, si) && sh.model.dirty(p1, si).is_some())
                        .collect();
                    if !dirty_gen.is_empty() && !p1.has_cycle_in(&w1_p1) {
                        // ... and a name the regenerated manifest declares is a valid request (C18)
                        let gv = disk::read_str("gen.in")
                            .and_then(|c| c.rsplit("#variant=").next().and_then(|x| x.trim().parse::<usize>().ok()))
                            .unwrap_or(0)
                            .min(sh.model.variants.len().saturating_sub(1));
                        if let Some(np) = sh.model.variants.get(gv) {
                            let mut m = np.mentioned();
                            m.insert(np.manifest.clone());
                            if ctargets.iter().all(|t| m.contains(t)) && dirty_gen.iter().all(|&si| p1.steps[si].generator) && !any_fail {
                                v.push(viol("C18", "valid-target-rejected", format!("{:?} was rejected although the manifest, once regenerated and reloaded, declares every requested name", ctargets)));
                            }
                        }
                        v.push(viol("C17", "rejected-before-regen", format!("{:?} was rejected before the out-of-date manifest (s{} needs to run) was regenerated and reloaded", unknown, p1.steps[dirty_gen[0]].id)));
                    }
                }
                if err.starts_with("load .n2_db") && !sh.io_err_fired {
                    if sh.model.log_torn_ever {
                        v.push(viol("C07", "log-unloadable", format!("n2 refuses to start after a torn log write: {:?}", err)));
                        if sh.model.inv_since_tear.map(|n| n >= 1).unwrap_or(false) {
                            v.push(viol("C08", "log-unloadable-after-recovery", format!("the log was loaded and appended to by a fault-free invocation after the tear, and now cannot be read: {:?}", err)));
                        }
                    } else {
                        v.push(viol("C08", "log-unloadable", format!("n2 cannot load a log it wrote without any fault: {:?}", err)));
                    }
                } else if !legit {
                    let d = format!("exit status {} with no failing command and nothing to reject: err={:?} tail={:?}", code, err, text.lines().last());
                    v.push(viol("C06", "spurious-failure", d.clone()));
                    if err.starts_with("dependency cycle") || err.starts_with("unknown path requested") {
                        v.push(viol("C18", "request-rejected", format!("the steps needed by the request were not brought up to date: {}", d)));
                    }
                    // a recorded / reported dependency that is missing must never fail the build
                    let miss_dep = final_wanted.iter().any(|&si| {
                        sh.model.rec_for(&p2, si).map(|r| r.deps.iter().any(|d| !disk::exists(d))).unwrap_or(false)
                            || sh.model.norecord_dep_missing.contains(&p2.steps[si].id)
                    });
                    if miss_dep {
                        v.push(viol("C09", "missing-dep-failed-build", format!("a discovered dependency is missing and the build failed: {}", d)));
                    }
                }
                if text.contains("n2: ran ") || text.contains("n2: no work to do") {
                    v.push(viol("C19", "summary-on-failure", "a success summary line was printed by a failing invocation".into()));
                }
                if cyc_final && !any_fail && !bogus && !miss && !nopool_any && !injected && !sh.sigint_raised && !err.starts_with("load .n2_db") {
                    match err.strip_prefix("dependency cycle: ") {
                        None => v.push(viol("C06", "cycle-diagnostic", format!("cycle among requested steps, but the error is {:?}", err))),
                        Some(path) => {
                            let path: Vec<&str> = path.split(" -> ").collect();
                            let mut ok = path.len() >= 2 && path.first() == path.last();
                            for w in path.windows(2) {
                                let edge = |proj: &Project| {
                                    proj.producer(w[0])
                                        .map(|si| proj.ordering_ins(&proj.steps[si]).any(|f| f == w[1]))
                                        .unwrap_or(false)
                                };
                                ok = ok && (edge(&p2) || edge(p1));
                            }
                            if !ok {
                                v.push(viol("C06", "cycle-path", format!("printed path is not a cycle of the graph: {:?}", err)));
                            }
                        }
                    }
                }
                if bogus && !cyc_final && !any_fail && !miss && !nopool_any && !injected && !sh.sigint_raised && !err.starts_with("unknown path requested") && !err.starts_with("load .n2_db") {
                    v.push(viol("C18", "unknown-target-diagnostic", format!("unknown target {:?} but the error is {:?}", unknown, err)));
                }
                // -k budget not reached: everything not downstream of a failure must be settled
                let budget_reached = spec.k.map(|k| nfail_total >= k).unwrap_or(false);
                if any_fail && !interrupted_any && !budget_reached && !miss && !nopool_any && !cyc_final && !bogus && !injected && !sh.sigint_raised && spec.k.is_some() && !failed_ids.iter().any(|f| w1_ids.contains(f)) {
                    for &si in &final_wanted {
                        let s = &p2.steps[si];
                        if s.phony || started_all.contains(&s.id) {
                            continue;
                        }
                        let anc = p2.order_anc(si);
                        let blocked = |i: usize| failed_ids.contains(&p2.steps[i].id);
                        if blocked(si) || anc.iter().any(|&a| blocked(a)) {
                            continue;
                        }
                        if let Some(r) = sh.model.dirty(&p2, si).filter(|_| sh.model.judgeable(&p2, si)) {
                            let d = format!("s{} left out of date ({}) although it is not downstream of a failure and the -k budget was not reached", s.id, r);
                            v.push(viol("C05", "not-kept-going", d.clone()));
                            v.push(viol("C06", "stopped-early", format!("n2 stopped although more could run: {}", d)));
                        }
                    }
                }
            }
        }
    }

    // ---- C16: stdout is exactly the composition of what the tasks printed
    if let Outcome::Exit(code, _) = outcome {
        if !spec.explain {
            let mut exp: Vec<u8> = Vec::new();
            let mut last_started: Option<usize> = None;
            let msg = |sid: usize| format!("D s{}", sid);
            let hide = |sid: usize| -> bool {
                for p in [&p2, p1] {
                    if let Some(si) = p.step_by_id(sid) {
                        return p.steps[si].hide_success;
                    }
                }
                false
            };
            for t in &sh.tee {
                match t {
                    Tee::Started(sid, cmd) => {
                        exp.extend_from_slice(if spec.verbose { cmd.clone() } else { msg(*sid) }.as_bytes());
                        exp.push(b'\n');
                        last_started = Some(*sid);
                    }
                    Tee::Finished(sid, term, out) => {
                        let mut hide_output = out.is_empty();
                        match term {
                            0 => {
                                if !(out.is_empty() || last_started == Some(*sid)) {
                                    exp.extend_from_slice(msg(*sid).as_bytes());
                                    exp.push(b'\n');
                                }
                                if hide(*sid) {
                                    hide_output = true;
                                }
                            }
                            2 => exp.extend_from_slice(format!("interrupted: {}\n", msg(*sid)).as_bytes()),
                            _ => exp.extend_from_slice(format!("failed: {}\n", msg(*sid)).as_bytes()),
                        }
                        if !hide_output {
                            exp.extend_from_slice(out);
                        }
                    }
                }
            }
            let body: &[u8] = if *code == 0 {
                // the summary line follows the last task output directly
                match stdout.iter().rposition(|&b| b == b'\n').map(|e| &stdout[..e]) {
                    Some(head) => match head.windows(4).rposition(|w| w == b"n2: ") {
                        Some(p) => &stdout[..p],
                        None => stdout,
                    },
                    None => stdout,
                }
            } else {
                stdout
            };
            if body != &exp[..] {
                let at = body.iter().zip(exp.iter()).position(|(a, b)| a != b).unwrap_or(body.len().min(exp.len()));
                v.push(viol("C16", "stdout-composition", format!(
                    "stdout differs from the in-order concatenation of status lines and task outputs at byte {} (got {} bytes, expected {}): got ..{:?} expected ..{:?}",
                    at, body.len(), exp.len(),
                    String::from_utf8_lossy(&body[at.saturating_sub(20)..(at + 40).min(body.len())]),
                    String::from_utf8_lossy(&exp[at.saturating_sub(20)..(at + 40).min(exp.len())])
                )));
            }
        }
    }
    // ---- a record wider than the log format's 16-bit counts (S3): everything that follows is its consequence
    if !v.is_empty() && sh.model.recs.iter().any(|r| r.deps.len() > 0xFFFF || r.outs.len() > 0x7FFF) {
        let d = format!("a step was recorded with more than 65535 discovered dependencies or more than 32767 outputs; afterwards: {} {}", v[0].code, v[0].detail);
        return vec![viol("C08", "oversize-record", d)];
    }

    // ---- the same disagreement seen in a context another property speaks about
    let structural = ["respell_manifest", "add_step", "remove_step", "move_output", "add_output", "swap_outputs", "rename_output", "pool_depth", "set_defaults"];
    let only_structural = !sh.model.edits_since_invoke.is_empty() && sh.model.edits_since_invoke.iter().all(|e| structural.contains(e));
    let near_tear = sh.model.inv_since_tear.map(|n| n <= 1).unwrap_or(false);
    let mut extra = Vec::new();
    // a header dropped from a step's latest report must stop triggering it (C09)
    for (sid, d) in &sh.started_dirty {
        if d.is_some() {
            continue;
        }
        for p in [&p2, p1] {
            if let Some(si) = p.step_by_id(*sid) {
                let st = &p.steps[si];
                let cur: Vec<String> = sh.model.rec_for(p, si).map(|r| r.deps.clone()).unwrap_or_default();
                let dropped: Vec<String> = sh
                    .model
                    .recs
                    .iter()
                    .filter(|r| !r.outs.is_empty() && r.outs.iter().all(|o| st.outs.contains(o)))
                    .flat_map(|r| r.deps.iter().cloned())
                    .filter(|d| !cur.contains(d) && !st.exp.contains(d) && !st.imp.contains(d))
                    .collect();
                if sh.model.edited_files_since_invoke.iter().any(|f| dropped.contains(f)) {
                    extra.push(viol("C09", "dropped-dep-still-triggers", format!("s{} was re-run after an edit of a file that its latest successful run no longer reported as a dependency", sid)));
                }
                break;
            }
        }
    }
    for x in &v {
        let dirtyish = matches!(
            (x.prop, x.code.as_str()),
            ("C03", "started-clean") | ("C02", "skipped-dirty") | ("C09", "skipped-dirty") | ("C02", "stale-content")
        );
        let closureish = x.prop == "C18" && x.code != "log-only-name-accepted";
        if dirtyish && near_tear {
            extra.push(viol("C07", &format!("after-tear-{}", x.code), format!("within two invocations of a torn log: {}", x.detail)));
        }
        if dirtyish && only_structural {
            extra.push(viol("C08", &format!("after-manifest-edit-{}", x.code), format!("only the manifest was edited ({:?}) since the last invocation: {}", sh.model.edits_since_invoke, x.detail)));
        }
        if (dirtyish || closureish) && reload_at.is_some() {
            extra.push(viol("C17", &format!("after-reload-{}", x.code), format!("in an invocation that regenerated and reloaded the manifest: {}", x.detail)));
        }
        if x.prop == "C18" && x.code == "closure-step-not-considered" {
            extra.push(viol("C06", "wanted-step-undecided", format!("exit status 0, but no decision was made for a wanted step: {}", x.detail)));
        }
        if x.prop == "C05" && x.code == "ancestor-failed" {
            extra.push(viol("C01", "ancestor-failed", x.detail.clone()));
        }
        if x.prop == "C03" && x.code == "started-clean" && sh.model.edits_since_invoke.is_empty() && sh.model.prev_exit0 {
            extra.push(viol("C08", "loaded-differs-from-recorded", format!("nothing at all was edited since the previous successful invocation, yet: {}", x.detail)));
        }
    }
    v.extend(extra);
    v
}

/// Execute a scenario in `sandbox`.  Stops at the first invocation with violations.
pub fn run_scenario(sc: &Scenario, sandbox: &Sandbox, verbose: bool) -> RunResult {
    let root = Rng::new(sc.seed);
    sandbox.reset();
    let mut res = RunResult::default();
    let mut model = Model {
        disk: sc.project.clone(),
        mem: sc.project.clone(),
        variants: sc.variants.clone(),
        gen_input_variant: 0,
        recs: vec![],
        tick: 10,
        taint: BTreeSet::new(),
        ever_logged: BTreeSet::new(),
        log_torn_ever: false,
        orphan_cut: None,
        content_unknown: false,
        inv_since_tear: None,
        edits_since_invoke: vec![],
        edited_files_since_invoke: vec![],
        prev_exit0: false,
        norecord_dep_missing: BTreeSet::new(),
    };
    for i in 0..model.disk.srcs.len() {
        if model.disk.srcs[i].exists {
            write_src(&mut model, i, None);
        }
    }
    sync_manifest(&mut model);
    res.shape_key = shape_key(&sc.project);
    let sh = Rc::new(RefCell::new(Shared::new(model)));
    let mut trace_acc: u64 = 0;
    for (opi, op) in sc.ops.iter().enumerate() {
        match op {
            Op::Invoke(spec) => {
                res.invocations += 1;
                let p1 = sh.borrow().model.disk.clone();
                let (outcome, stdout) = invoke(&sh, spec, &root, sandbox);
                let mut s = sh.borrow_mut();
                s.stats.bump(match &outcome {
                    Outcome::Exit(0, _) => "outcome.exit0",
                    Outcome::Exit(_, _) => "outcome.exit_nonzero",
                    Outcome::Crash => "outcome.died",
                    Outcome::Panic(_) => "outcome.panic",
                });
                res.inv_db_writes.push((opi, s.ev.iter().filter_map(|e| if let Ev::DbWrite(n) = e { Some(*n) } else { None }).collect()));
                let ncmd = s.ev.iter().filter(|e| matches!(e, Ev::Exec(_))).count();
                res.commands += ncmd;
                // event-trace hash (determinism) and distinct-trace key
                let evdbg = format!("{:?}", s.ev);
                let dbbytes = disk::read(&s.model.disk.db_path()).unwrap_or_default();
                trace_acc = h64(&(trace_acc, &evdbg, &stdout, &dbbytes, disk::tree_listing(), format!("{:?}", outcome)));
                let key: Vec<(u8, usize)> = s
                    .ev
                    .iter()
                    .filter_map(|e| match e {
                        Ev::Start(x) => Some((0u8, *x)),
                        Ev::Exec(x) => Some((1, *x)),
                        Ev::Deliver(x, t) => Some((2 + *t, *x)),
                        Ev::Reload => Some((9, 0)),
                        Ev::Fault(_) => Some((8, 0)),
                        _ => None,
                    })
                    .collect();
                let nontrivial = ncmd >= 2
                    && (spec.faults.any_injected()
                        || !spec.faults.fail.is_empty()
                        || {
                            // a non-FIFO decision: some delivery order differs from start order
                            let starts: Vec<usize> = key.iter().filter(|k| k.0 == 0).map(|k| k.1).collect();
                            let dels: Vec<usize> = key.iter().filter(|k| k.0 >= 2 && k.0 < 8).map(|k| k.1).collect();
                            starts != dels
                        });
                res.trace_keys.push((h64(&(res.shape_key, &key)), nontrivial));
                {
                    // distinct BuildStates vectors at updates
                    let mut cur: BTreeMap<usize, u8> = BTreeMap::new();
                    for e in &s.ev {
                        match e {
                            Ev::State { bid, next, .. } => {
                                cur.insert(*bid, *next);
                            }
                            Ev::Update(_) => res.state_vectors.push(h64(&(res.shape_key, &cur))),
                            _ => {}
                        }
                    }
                }
                let line = format!(
                    "invoke {:?} -> {:?}; events {:?}; stdout {:?}",
                    spec,
                    outcome,
                    s.ev.iter().filter(|e| !matches!(e, Ev::State { .. } | Ev::Update(_))).collect::<Vec<_>>(),
                    String::from_utf8_lossy(&stdout[..stdout.len().min(600)])
                );
                res.log.push(line);
                let mut v = check_invocation(&mut s, &p1, spec, &outcome, &stdout);
                s.model.edits_since_invoke.clear();
                s.model.edited_files_since_invoke.clear();
                s.model.prev_exit0 = matches!(outcome, Outcome::Exit(0, _)) && !s.io_err_fired && !s.crash_fired && !spec.restat;
                if !(matches!(outcome, Outcome::Crash) || s.dbfault_fired) {
                    if let Some(n) = &mut s.model.inv_since_tear {
                        *n += 1;
                    }
                }
                // the log mirror after a death: only whole record groups survive
                if matches!(outcome, Outcome::Crash) || s.dbfault_fired {
                    let len = disk::file_len(&s.model.disk.db_path()).unwrap_or(0);
                    s.model.cut_log(len);
                    s.model.log_torn_ever = true;
                    s.model.inv_since_tear = Some(0);
                    if spec.restat && s.orphan.is_some() {
                        // an adoption record of unknown owner may be in the log
                        s.model.orphan_cut = Some(s.model.recs.len());
                        s.model.content_unknown = true;
                    }
                }
                // C18: the log lives at <builddir>/.n2_db and nowhere else
                {
                    let want = s.model.disk.db_path();
                    let listing = disk::tree_listing();
                    for l in &listing {
                        let p = l.split(' ').next().unwrap_or("");
                        if p.ends_with(".n2_db") && p != want && p != s.model.mem.db_path() && p != p1.db_path() {
                            v.push(viol("C18", "log-location", format!("log written at {:?}, expected {:?}", p, want)));
                        }
                    }
                    if spec.use_c {
                        if let Ok(rd) = std::fs::read_dir(&sandbox.root) {
                            for e in rd.filter_map(|e| e.ok()) {
                                if e.file_name() != "w" {
                                    v.push(viol("C18", "wrote-outside-C-dir", format!("{:?} appeared outside the -C directory", e.file_name())));
                                }
                            }
                        }
                    }
                }
                if !v.is_empty() {
                    for x in v {
                        res.violations.push((opi, x));
                    }
                    break;
                }
            }
            op => {
                let mut s = sh.borrow_mut();
                let mut log = Vec::new();
                let applied = apply_edit(&mut s, op, &mut log);
                if applied {
                    s.stats.bump(&format!("edit.{}", op_name(op)));
                    s.model.edits_since_invoke.push(op_name(op));
                    match op {
                        Op::EditSrc { src, .. } | Op::TouchSrc { src } | Op::OddMtime { src, .. } | Op::DelSrc { src } | Op::RestoreSrc { src } | Op::ToggleInc { src, .. } | Op::SetIncs { src, .. } => {
                            if let Some(n) = s.model.disk.srcs.get(*src).map(|x| x.name.clone()) {
                                s.model.edited_files_since_invoke.push(n);
                            }
                        }
                        _ => {}
                    }
                }
                res.log.extend(log);
            }
        }
    }
    let s = sh.borrow();
    res.stats = s.stats.c.clone();
    res.trace_hash = trace_acc;
    res.ticks = s.model.tick;
    if verbose {
        eprintln!("---- seed {} manifest:", sc.seed);
        for (n, t) in s.model.disk.render().files {
            eprintln!("-- {}:\n{}", n, t);
        }
        for l in &res.log {
            eprintln!("  {}", l);
        }
    }
    res
}

pub fn op_name(op: &Op) -> &'static str {
    match op {
        Op::EditSrc { .. } => "edit_src",
        Op::TouchSrc { .. } => "touch_src",
        Op::OddMtime { .. } => "odd_mtime",
        Op::RmOut { .. } => "rm_output",
        Op::TamperOut { .. } => "tamper_output",
        Op::TouchOut { .. } => "touch_output",
        Op::Salt { .. } => "command_text",
        Op::Decor { .. } => "command_decor",
        Op::RspVer { .. } => "rspfile_content",
        Op::ToggleInc { .. } => "toggle_include",
        Op::SetIncs { .. } => "set_includes",
        Op::DelSrc { .. } => "delete_source",
        Op::RestoreSrc { .. } => "restore_source",
        Op::Respell { .. } => "respell_manifest",
        Op::AddStep { .. } => "add_step",
        Op::RemoveStep { .. } => "remove_step",
        Op::MoveOut { .. } => "move_output",
        Op::AddOut { .. } => "add_output",
        Op::SwapOut { .. } => "swap_outputs",
        Op::RenameOut { .. } => "rename_output",
        Op::SetPoolDepth { .. } => "pool_depth",
        Op::SetDefaults { .. } => "set_defaults",
        Op::DeleteDb => "delete_log",
        Op::TruncDb { .. } => "truncate_log",
        Op::SetVariant { .. } => "generator_input",
        Op::Invoke(_) => "invoke",
    }
}

/// canonical form of the graph shape up to renaming (distinct-shape measure)
pub fn shape_key(p: &Project) -> u64 {
    let mut rows: Vec<(usize, usize, usize, usize, usize, bool, u8, bool, Vec<usize>)> = Vec::new();
    for (_, s) in p.live_steps() {
        let prods: Vec<usize> = s
            .exp
            .iter()
            .chain(&s.imp)
            .chain(&s.oo)
            .chain(&s.val)
            .filter_map(|f| p.producer(f))
            .collect();
        rows.push((s.outs.len(), s.exp.len(), s.imp.len(), s.oo.len(), s.val.len(), s.phony, s.depmode, s.pool.is_some(), prods));
    }
    h64(&rows)
}
