#!/usr/bin/env python3
"""Apply a textual mutant to /repo, run the given checks, revert.
usage: mutant.py NAME FILE OLD NEW PROP [PROP...]      (OLD must occur in FILE)
   or: mutant.py --patch NAME PATCHFILE PROP [PROP...]
Prints one line per property: caught / MISSED."""
import subprocess, sys, os
def sh(c, **k): return subprocess.run(c, shell=True, capture_output=True, text=True, **k)
args = sys.argv[1:]
assert sh("git -C /repo status --porcelain").stdout.strip() == "", "/repo not clean"
if args[0] == "--patch":
    name, patch, props = args[1], args[2], args[3:]
    r = sh(f"git -C /repo apply {patch}")
    assert r.returncode == 0, r.stderr
else:
    name, f, old, new, props = args[0], args[1], args[2], args[3], args[4:]
    p = "/repo/src/" + f; s = open(p).read()
    assert s.count(old) >= 1, "pattern not found"
    open(p, "w").write(s.replace(old, new, 1))
try:
    env = dict(os.environ, VERIF_RUNS=os.environ.get("VERIF_RUNS", "40000"))
    for prop in props:
        r = subprocess.run(["/verif/check.sh", prop, "quick"], capture_output=True, text=True, env=env)
        v = [l for l in r.stdout.splitlines() if l.startswith("violation:")]
        status = {0: "MISSED", 1: "caught", 2: "HARNESS-ERROR"}.get(r.returncode, str(r.returncode))
        print(f"mutant {name}: {prop} {status} " + (" | ".join(x[:160] for x in v[:3]) if v else r.stdout.strip().splitlines()[-1][:200] if r.stdout.strip() else r.stderr[-300:]))
finally:
    sh("git -C /repo checkout -- .")
    subprocess.run(["rm", "-rf", "/verif/replays"])
