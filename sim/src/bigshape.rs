//! Record shapes that straddle the field widths of the log format (C08):
//! tens of thousands of discovered deps / outputs, long and non-ASCII paths,
//! more than 65 536 distinct paths in one log.  A fixed handful per tier.
use crate::project::*;
use crate::scenario::*;

pub const KINDS: u64 = 12;

fn step(id: usize, outs: Vec<String>, nexp: usize, exp: Vec<String>, depmode: u8) -> Step {
    Step {
        id,
        outs,
        nexp,
        exp,
        imp: vec![],
        oo: vec![],
        val: vec![],
        phony: false,
        salt: 0,
        decor: String::new(),
        depmode,
        restat: false,
        pool: None,
        rsp: None,
        hide_success: false,
        removed: false,
        generator: false,
        touches: None,
        nl: 0,
    }
}

fn src(name: String, incs: Vec<String>) -> Src {
    Src { name, ver: 0, incs, soft: false, exists: true, tag: String::new(), mg: false }
}

pub fn describe(kind: u64) -> String {
    match kind {
        0 => "65534 discovered deps (gcc depfile)".into(),
        1 => "65535 discovered deps (gcc depfile)".into(),
        2 => "65536 discovered deps (gcc depfile)".into(),
        3 => "70000 discovered deps (gcc depfile)".into(),
        4 => "66000 discovered deps (msvc showIncludes)".into(),
        5 => "32767 outputs".into(),
        6 => "32768 outputs".into(),
        7 => "40000 outputs".into(),
        8 => "3 steps x 30000 discovered deps: 90000 distinct paths in one log".into(),
        9 => "255-byte path components nested to ~3900 bytes".into(),
        10 => "discovered deps with 255-byte and non-ASCII names".into(),
        _ => "70000 deps, then the list shrinks to 3".into(),
    }
}

/// `seed` selects the kind (seed % KINDS) and the header that gets touched.
pub fn gen_bigshape(seed: u64) -> Scenario {
    let kind = seed % KINDS;
    let mut srcs: Vec<Src> = Vec::new();
    let mut steps: Vec<Step> = Vec::new();
    let mut ops: Vec<Op> = Vec::new();
    let inv = |sub: u64| {
        let mut s = InvokeSpec::plain(sub);
        s.policy = 4;
        Op::Invoke(s)
    };
    match kind {
        0..=4 | 11 => {
            let n = match kind {
                0 => 65534,
                1 => 65535,
                2 => 65536,
                3 | 11 => 70000,
                _ => 66000,
            };
            let hs: Vec<String> = (0..n).map(|k| format!("bh/h{}", k)).collect();
            srcs.push(src("main.c".into(), hs.clone()));
            for h in hs {
                srcs.push(src(h, vec![]));
            }
            steps.push(step(0, vec!["main.o".into()], 1, vec!["main.c".into()], if kind == 4 { 2 } else { 1 }));
            ops.push(inv(0));
            ops.push(inv(1));
            ops.push(Op::TouchSrc { src: 1 + (seed as usize / KINDS as usize * 7919) % n });
            ops.push(inv(2));
            ops.push(inv(3));
            if kind == 11 {
                // the report shrinks: later touches of dropped headers must not trigger
                ops.push(Op::SetIncs { src: 0, incs: (0..3).map(|k| format!("bh/h{}", k)).collect() });
                ops.push(inv(4));
                ops.push(Op::TouchSrc { src: 1 + n - 1 });
                ops.push(inv(5));
            }
        }
        5..=7 => {
            let n = match kind {
                5 => 32767,
                6 => 32768,
                _ => 40000,
            };
            srcs.push(src("in.txt".into(), vec![]));
            let outs: Vec<String> = (0..n).map(|k| format!("bo/o{}", k)).collect();
            steps.push(step(0, outs, 1, vec!["in.txt".into()], 0));
            steps.push(step(1, vec!["final".into()], 1, vec![format!("bo/o{}", n - 1)], 0));
            ops.push(inv(0));
            ops.push(inv(1));
            ops.push(Op::EditSrc { src: 0, backwards: false });
            ops.push(inv(2));
            ops.push(inv(3));
            ops.push(Op::RmOut { name: format!("bo/o{}", (seed as usize / KINDS as usize * 7919) % n) });
            ops.push(inv(4));
            ops.push(inv(5));
        }
        8 => {
            for s in 0..3usize {
                let hs: Vec<String> = (0..30000).map(|k| format!("bh/h{}", s * 30000 + k)).collect();
                srcs.push(src(format!("m{}.c", s), hs));
            }
            // header files come after the three mains: bh/hK is srcs[3 + K]
            for k in 0..90000 {
                srcs.push(src(format!("bh/h{}", k), vec![]));
            }
            for s in 0..3usize {
                steps.push(step(s, vec![format!("m{}.o", s)], 1, vec![format!("m{}.c", s)], 1));
            }
            ops.push(inv(0));
            ops.push(inv(1));
            ops.push(Op::TouchSrc { src: 3 + 65536 + (seed as usize % 1000) });
            ops.push(inv(2));
            ops.push(inv(3));
        }
        9 => {
            let comp = "d".repeat(255);
            let mut path = String::new();
            for _ in 0..15 {
                path.push_str(&comp);
                path.push('/');
            }
            srcs.push(src("in.txt".into(), vec![]));
            steps.push(step(0, vec![format!("{}out", path), format!("{}{}", path, "\u{2501}".repeat(85))], 2, vec!["in.txt".into()], 0));
            steps.push(step(1, vec!["final".into()], 1, vec![format!("{}out", path)], 0));
            ops.push(inv(0));
            ops.push(inv(1));
            ops.push(Op::EditSrc { src: 0, backwards: false });
            ops.push(inv(2));
            ops.push(inv(3));
        }
        _ => {
            let names: Vec<String> = vec![
                format!("bh/{}", "n".repeat(255)),
                format!("bh/{}", "\u{fc}".repeat(127)),
                format!("bh/{}x", "\u{1F600}".repeat(63)),
                format!("bh/{}", "m".repeat(254)),
            ];
            srcs.push(src("main.c".into(), names.clone()));
            for n in names {
                srcs.push(src(n, vec![]));
            }
            steps.push(step(0, vec!["main.o".into()], 1, vec!["main.c".into()], 1 + (seed / KINDS % 2) as u8));
            ops.push(inv(0));
            ops.push(inv(1));
            ops.push(Op::TouchSrc { src: 1 + (seed as usize / KINDS as usize) % 4 });
            ops.push(inv(2));
            ops.push(inv(3));
        }
    }
    let n = steps.len();
    Scenario {
        seed,
        profile: "C08big".into(),
        project: Project {
            srcs,
            steps,
            pools: vec![],
            defaults: vec![],
            order: (0..n).collect(),
            spell: 0,
            builddir: None,
            manifest: "build.ninja".into(),
        },
        variants: vec![],
        ops,
    }
}

pub const C07BIG_POINTS: [usize; 10] = [1, 100, 9999, 30000, 32768, 32769, 32770, 33000, 36000, 36014];

/// A build record larger than any path record (12 000 discovered deps = 36 015 bytes),
/// torn at byte offsets around 32 KiB; then two fault-free invocations.
pub fn gen_c07big(seed: u64) -> Scenario {
    let n = 12000usize;
    let hs: Vec<String> = (0..n).map(|k| format!("bh/h{}", k)).collect();
    let mut srcs = vec![src("main.c".into(), hs.clone())];
    for h in hs {
        srcs.push(src(h, vec![]));
    }
    let steps = vec![step(0, vec!["main.o".into()], 1, vec!["main.c".into()], 1), step(1, vec!["final".into()], 1, vec!["main.o".into()], 0)];
    let mut first = InvokeSpec::plain(0);
    first.policy = 4;
    // log writes of the first invocation: signature (2), path of the output (1), one path per
    // dependency (12 000), then the build record
    first.faults.crash_db_write = Some(2 + 1 + n + 1);
    first.faults.crash_db_bytes = C07BIG_POINTS[(seed as usize) % C07BIG_POINTS.len()];
    first.faults.db_err = (seed as usize / C07BIG_POINTS.len()) % 2 == 1;
    let mut ops = vec![Op::Invoke(first)];
    for i in 1..4 {
        let mut s = InvokeSpec::plain(i);
        s.policy = 4;
        ops.push(Op::Invoke(s));
    }
    Scenario {
        seed,
        profile: "C07big".into(),
        project: Project { srcs, steps, pools: vec![], defaults: vec![], order: vec![0, 1], spell: 0, builddir: None, manifest: "build.ninja".into() },
        variants: vec![],
        ops,
    }
}
