#!/usr/bin/env python3
"""Store confirmed seeded changes of a round under /verif/seeded/<Cnn>-<round>-<v>/.
usage: seeded_store.py <round> <confirm.log> <blind.log> [<after.log>]
  confirm.log: lines of tools/seeded_confirm.sh;  blind.log / after.log: lines of tools/seeded_eval.sh"""
import json, os, re, shutil, sys, glob
rnd, confirm, blind = sys.argv[1], sys.argv[2], sys.argv[3]
after = sys.argv[4] if len(sys.argv) > 4 else None
def parse_eval(path):
    res = {}
    if not path or not os.path.exists(path): return res
    for l in open(path):
        m = re.match(r"mutant (C\d+-\w+)-(\w): (C\d+) (\S+) (.*)", l)
        if m: res[(m.group(1), m.group(2))] = (m.group(4), m.group(5).strip())
    return res
conf = {}
for l in open(confirm):
    m = re.match(r"(C\d+-\w+)-(\w): (.*)", l)
    if m: conf[(m.group(1), m.group(2))] = m.group(3).strip()
b, a = parse_eval(blind), parse_eval(after)
for (name, v), c in sorted(conf.items()):
    ok = "demo_with_patch=1 demo_without=0" in c and " 0 failed" in c and "71 passed" in c
    src = f"/tmp/seeded/{name}-out/{v}"
    if not ok:
        print(f"{name}-{v}: NOT KEPT ({c})"); continue
    dst = f"/verif/seeded/{name}-{v}"
    os.makedirs(dst, exist_ok=True)
    for f in ("patch.diff", "demo.sh", "notes.md", "demo_test.rs"):
        if os.path.exists(f"{src}/{f}"): shutil.copy(f"{src}/{f}", dst)
    notes = open(f"{src}/notes.md").read() if os.path.exists(f"{src}/notes.md") else ""
    prop = name.split("-")[0]
    br = b.get((name, v), ("not-run", ""))
    ar = a.get((name, v))
    meta = {
        "property": prop, "variant": f"{rnd}-{v}",
        "origin": f"round {rnd}: independent sub-agent (property text, list of earlier ideas to avoid, own scratch worktree); evaluated BLIND first",
        "needs_to_manifest": notes[:1800],
        "confirmed_independently": {"how": f"tools/seeded_confirm.sh in scratch worktree /tmp/seeded/{name}", "result": c},
        "checked_with": f"tools/seeded_eval.sh (git -C /repo apply patch.diff; VERIF_RUNS=60000 ./check.sh {prop} quick; git -C /repo checkout -- .)",
        "blind_result": br[0], "blind_detected_as": br[1],
        "detected": (ar[0] if ar else br[0]), "detected_as": (ar[1] if ar else br[1]),
    }
    old = f"{dst}/meta.json"
    if os.path.exists(old):
        o = json.load(open(old))
        for k in ("extension_after_blind_miss",):
            if k in o: meta[k] = o[k]
    json.dump(meta, open(old, "w"), indent=1)
    print(f"{name}-{v}: kept; blind={br[0]} final={meta['detected']}")
