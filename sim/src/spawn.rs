//! Real-spawn leg of C16: the real `posix_spawn` path of process_posix.rs runs
//! (the simulator does not divert `run_command`), children are real processes
//! whose observations depend only on what they inherit.  Task closures are
//! still scheduled by the simulator: one child at a time, except inside the
//! window between `pipe2` and `posix_spawn`, where a second whole task may run.
use crate::coord::VLine;
use crate::disk;
use crate::exec::{Sandbox, IN_N2, LAST_PANIC};
use crate::rng::Rng;
use n2::verif::{Host, Op as IoOp, Termination, WriteFate};
use serde::{Deserialize, Serialize};
use std::cell::RefCell;
use std::collections::BTreeMap;
use std::rc::Rc;

#[derive(Clone, Debug, Serialize, Deserialize, PartialEq)]
pub enum Expect {
    /// exact bytes
    Bytes(Vec<u8>),
    /// n copies of byte a then m copies of byte b
    Runs(Vec<(u8, usize)>),
    /// the descriptor table listing must be exactly 0 -> /dev/null, 1,2 -> one pipe
    FdTable,
    /// output must equal the build directory path
    Cwd,
}

#[derive(Clone, Debug, Serialize, Deserialize, PartialEq)]
pub struct Probe {
    pub id: usize,
    /// the command as the shell must see it
    pub cmd: String,
    pub expect: Expect,
    /// 0 ok, 1 failure, 2 interrupted
    pub term: u8,
    /// (path, content) of files the command must have written
    pub files: Vec<(String, String)>,
    pub rsp: Option<(String, String)>,
    /// ids of probes whose outputs this one takes as inputs (ordering)
    pub after: Vec<usize>,
    pub subdir_out: bool,
}

#[derive(Clone, Debug, Serialize, Deserialize, PartialEq)]
pub struct SpawnScenario {
    pub seed: u64,
    pub probes: Vec<Probe>,
    pub j: usize,
    pub k: Option<usize>,
    pub use_c: bool,
    pub nested: bool,
    pub sub: u64,
}

fn ninja_escape(s: &str) -> String {
    s.replace('$', "$$")
}

pub fn gen(seed: u64) -> SpawnScenario {
    let root = Rng::new(seed);
    let mut r = root.sub(7, 7);
    let n = 1 + r.below(6);
    let mut probes = Vec::new();
    for id in 0..n {
        let kind = r.below(16);
        let mut files = vec![];
        let mut rsp = None;
        let (cmd, expect, term): (String, Expect, u8) = match kind {
            0 => ("cat; echo rc=$?".into(), Expect::Bytes(b"rc=0\n".to_vec()), 0),
            1 => ("readlink /proc/$$/fd/0".into(), Expect::Bytes(b"/dev/null\n".to_vec()), 0),
            2 => ("pwd".into(), Expect::Cwd, 0),
            3 | 4 => (
                "ls -l /proc/self/fd".into(),
                Expect::FdTable,
                0,
            ),
            5 => (
                "printf '%s|' \"a b\" 'c$d' \"e\\\"f\" g\\ h; echo".into(),
                Expect::Bytes(b"a b|c$d|e\"f|g h|\n".to_vec()),
                0,
            ),
            6 => {
                let a = [1usize, 4095, 4096, 4097, 8191, 65536, 70000][r.below(7)];
                let b = [0usize, 1, 4096, 5000][r.below(4)];
                let mut c = format!("head -c {} /dev/zero | tr '\\0' a", a);
                if b > 0 {
                    c.push_str(&format!("; head -c {} /dev/zero | tr '\\0' b >&2", b));
                }
                let mut runs = vec![(b'a', a)];
                if b > 0 {
                    runs.push((b'b', b));
                }
                (c, Expect::Runs(runs), 0)
            }
            7 => {
                let code = 1 + r.below(255);
                (format!("echo bye; exit {}", code), Expect::Bytes(b"bye\n".to_vec()), 1)
            }
            8 => ("echo t; kill -TERM $$".into(), Expect::Bytes(b"t\nsignal 15".to_vec()), 1),
            9 => ("kill -KILL $$".into(), Expect::Bytes(b"signal 9".to_vec()), 1),
            10 => ("echo i; kill -INT $$".into(), Expect::Bytes(b"i\ninterrupted".to_vec()), 2),
            11 => {
                let p = format!("red{}.txt", id);
                files.push((p.clone(), "hi there\n".to_string()));
                (format!("echo hi there > {} && echo ok", p), Expect::Bytes(b"ok\n".to_vec()), 0)
            }
            12 => ("echo \"$((1+2)) ${NOSUCHVAR:-dflt}\" 'x;y' && true || echo no".into(), Expect::Bytes(b"3 dflt x;y\n".to_vec()), 0),
            13 => {
                let p = if r.pct(50) { format!("rsp/p{}.rsp", id) } else { format!("p{}.rsp", id) };
                let content = format!("line one {}   $HOME 'q' \"r\"", id);
                rsp = Some((p.clone(), content.clone()));
                (format!("cat {}", p), Expect::Bytes(content.into_bytes()), 0)
            }
            14 => ("echo out; echo err >&2; echo out2".into(), Expect::Bytes(b"out\nerr\nout2\n".to_vec()), 0),
            _ => ("true".into(), Expect::Bytes(vec![]), 0),
        };
        let mut after = vec![];
        if id > 0 && r.pct(35) {
            after.push(r.below(id));
        }
        // a no-op prefix makes every command string unique (the harness recognises tasks by it)
        let subdir_out = r.pct(30);
        let stamp = if subdir_out { format!("od/x{}/p{}.stamp", id % 2, id) } else { format!("p{}.stamp", id) };
        // every command first creates its declared output, so that a success is recorded
        let cmd = format!(": p{}; : > {}; {}", id, stamp, cmd);
        probes.push(Probe { id, cmd, expect, term, files, rsp, after, subdir_out });
    }
    SpawnScenario {
        seed,
        probes,
        j: 1 + r.below(4),
        k: if r.pct(50) { Some(8) } else { None },
        use_c: r.pct(25),
        nested: r.pct(70),
        sub: r.next(),
    }
}

fn out_name(p: &Probe) -> String {
    if p.subdir_out {
        format!("od/x{}/p{}.stamp", p.id % 2, p.id)
    } else {
        format!("p{}.stamp", p.id)
    }
}

pub fn render(sc: &SpawnScenario) -> String {
    let mut m = String::new();
    for p in &sc.probes {
        // every command also creates its stamp so that dependents find their input
        let full = format!("{} ; rc=$?; : > {}; (exit $rc)", p.cmd, out_name(p));
        let _ = full;
        m.push_str(&format!("rule r{}\n  command = {}\n  description = P{}\n", p.id, ninja_escape(&p.cmd), p.id));
        if let Some((path, content)) = &p.rsp {
            m.push_str(&format!("  rspfile = {}\n  rspfile_content = {}\n", path, ninja_escape(content)));
        }
        let ins: Vec<String> = p.after.iter().map(|a| format!("p{}.order", a)).collect();
        m.push_str(&format!("build {}: r{}", out_name(p), p.id));
        if !ins.is_empty() {
            m.push_str(&format!(" || {}", ins.join(" ")));
        }
        m.push('\n');
        m.push_str(&format!("build p{}.order: phony {}\n", p.id, out_name(p)));
    }
    m
}

#[derive(Default)]
struct SShared {
    tee: Vec<(u8, usize, u8, Vec<u8>)>, // (0 start / 1 finish, id, term, output)
    nested_runs: u64,
    pend: Vec<usize>,
}

struct SpawnHost {
    sh: Rc<RefCell<SShared>>,
    args: Vec<String>,
    rng: Rng,
    nested: bool,
}

fn probe_id(cmd: &str, sc: &SpawnScenario) -> usize {
    sc.probes.iter().find(|p| p.cmd == cmd).map(|p| p.id).unwrap_or(usize::MAX)
}

thread_local! {
    static CUR: RefCell<Option<SpawnScenario>> = RefCell::new(None);
}

impl Host for SpawnHost {
    fn argv0(&mut self) -> String {
        "n2".into()
    }
    fn args(&mut self) -> Vec<String> {
        self.args.clone()
    }
    fn point(&mut self, _op: IoOp, _path: &str, _in_task: bool) -> Option<std::io::ErrorKind> {
        None
    }
    fn pick_exec(&mut self, pending: usize, must: bool) -> Option<usize> {
        if pending == 0 {
            return None;
        }
        // at the spawn window (must == false inside a task) run a second task when asked to
        if must || self.rng.pct(if self.nested { 60 } else { 20 }) {
            let i = self.rng.below(pending);
            let mut sh = self.sh.borrow_mut();
            if i < sh.pend.len() {
                sh.pend.remove(i);
            }
            Some(i)
        } else {
            None
        }
    }
    fn on_channel(&mut self) {}
    fn pick_deliver(&mut self, nonempty: &[usize]) -> usize {
        self.rng.below(nonempty.len())
    }
    fn command(&mut self, _cmd: &str, _out: &mut dyn FnMut(&[u8])) -> Option<anyhow::Result<Termination>> {
        None
    }
    fn permute(&mut self, n: usize) -> Vec<usize> {
        let mut v: Vec<usize> = (0..n).collect();
        self.rng.shuffle(&mut v);
        v
    }
    fn db_write(&mut self, _len: usize) -> WriteFate {
        WriteFate::Full
    }
    fn db_written(&mut self, _b: &[u8]) {}
    fn on_state(&mut self, _id: usize, _d: Option<&str>, _c: Option<&str>, _p: u8, _n: u8) {}
    fn on_update(&mut self, _c: [usize; 6], _t: usize) {}
    fn on_check(&mut self, _id: usize, _d: Option<&str>, _c: Option<&str>, _deps: &[String]) {}
    fn on_task_started(&mut self, _id: usize, cmd: &str) {
        let id = CUR.with(|c| probe_id(cmd, c.borrow().as_ref().unwrap()));
        let mut sh = self.sh.borrow_mut();
        sh.pend.push(id);
        sh.tee.push((0, id, 0, vec![]));
    }
    fn on_task_finished(&mut self, _id: usize, cmd: &str, term: &Termination, output: &[u8]) {
        let id = CUR.with(|c| probe_id(cmd, c.borrow().as_ref().unwrap()));
        let t = match term {
            Termination::Success => 0,
            Termination::Failure => 1,
            Termination::Interrupted => 2,
        };
        self.sh.borrow_mut().tee.push((1, id, t, output.to_vec()));
    }
}

pub struct SpawnResult {
    /// (code, detail); codes starting with "c05-" belong to C05, "c01-" to C01, all others to C16
    pub violations: Vec<(String, String)>,
    pub commands: u64,
    pub nested_windows: u64,
    pub stats: BTreeMap<String, u64>,
}

/// descriptors (beyond 0,1,2) that this process itself would pass on to any child:
/// not n2's doing, so not a leak
pub fn inheritable_baseline() -> Vec<String> {
    let mut v = vec![];
    if let Ok(rd) = std::fs::read_dir("/proc/self/fd") {
        for e in rd.filter_map(|e| e.ok()) {
            let name = e.file_name().to_string_lossy().into_owned();
            if let Ok(fd) = name.parse::<i32>() {
                if fd <= 2 {
                    continue;
                }
                let flags = unsafe { libc::fcntl(fd, libc::F_GETFD) };
                if flags >= 0 && flags & libc::FD_CLOEXEC == 0 {
                    v.push(name);
                }
            }
        }
    }
    v
}

fn check_fd_table(out: &[u8], baseline: &[String]) -> Result<(), String> {
    let text = String::from_utf8_lossy(out).into_owned();
    let mut pipe: Option<String> = None;
    let mut seen = vec![];
    for l in text.lines() {
        // "lrwx------ 1 root root 64 Sep 23 15:26 0 -> /dev/null"
        let toks: Vec<&str> = l.split_whitespace().collect();
        let arrow = match toks.iter().position(|t| *t == "->") {
            Some(a) if a >= 1 && a + 1 < toks.len() => a,
            _ => continue,
        };
        let fd = toks[arrow - 1];
        let tgt = toks[arrow + 1];
        // the descriptor ls itself uses to read the directory
        if tgt.starts_with("/proc/") && tgt.ends_with("/fd") {
            continue;
        }
        seen.push(fd.to_string());
        match fd {
            "0" => {
                if tgt != "/dev/null" {
                    return Err(format!("stdin is {:?}", tgt));
                }
            }
            "1" | "2" => {
                if !tgt.starts_with("pipe:") {
                    return Err(format!("fd {} is {:?}, not a pipe", fd, tgt));
                }
                match &pipe {
                    None => pipe = Some(tgt.to_string()),
                    Some(p) if p == tgt => {}
                    Some(p) => return Err(format!("stdout and stderr are different pipes {} {}", p, tgt)),
                }
            }
            other if baseline.iter().any(|b| b == other) => {
                seen.pop();
            }
            other => {
                return Err(format!("descriptor {} -> {:?} leaked into the command", other, tgt));
            }
        }
    }
    if seen != ["0", "1", "2"] {
        return Err(format!("descriptor table is {:?}", seen));
    }
    Ok(())
}

pub fn run(sc: &SpawnScenario, sandbox: &Sandbox) -> SpawnResult {
    sandbox.reset();
    let mut v: Vec<(String, String)> = Vec::new();
    let mut stats: BTreeMap<String, u64> = BTreeMap::new();
    std::fs::write("build.ninja", render(sc)).unwrap();
    let cwd_real = std::fs::canonicalize(".").unwrap().to_string_lossy().into_owned();
    let sh = Rc::new(RefCell::new(SShared::default()));
    let baseline = inheritable_baseline();
    let mut args: Vec<String> = vec![];
    if sc.use_c {
        args.extend(["-C".to_string(), "w".to_string()]);
    }
    args.extend(["-j".to_string(), sc.j.to_string()]);
    if let Some(k) = sc.k {
        args.extend(["-k".to_string(), k.to_string()]);
    }
    let host = SpawnHost { sh: sh.clone(), args, rng: Rng::new(sc.sub), nested: sc.nested };
    if sc.use_c {
        std::env::set_current_dir(&sandbox.root).unwrap();
    }
    CUR.with(|c| *c.borrow_mut() = Some(sc.clone()));
    n2::verif::set_interrupted(false);
    LAST_PANIC.with(|p| p.borrow_mut().clear());
    n2::verif::install(Box::new(host));
    IN_N2.with(|c| c.set(true));
    let (r, stdout) = disk::capture(|| std::panic::catch_unwind(|| n2::run::run()));
    let _ = std::env::set_current_dir(format!("{}/w", sandbox.root));
    while n2::verif::pending_tasks() > 0 {
        let _ = std::panic::catch_unwind(|| n2::verif::run_pending_task(0));
    }
    drop(n2::verif::uninstall());
    IN_N2.with(|c| c.set(false));
    n2::verif::set_interrupted(false);
    let shd = sh.borrow();
    let code = match r {
        Ok(Ok(c)) => c,
        Ok(Err(e)) => {
            v.push(("spawn-run-error".into(), format!("n2 failed: {}", e)));
            1
        }
        Err(_) => {
            v.push(("spawn-panic".into(), format!("n2 panicked: {}", LAST_PANIC.with(|p| p.borrow().clone()))));
            101
        }
    };
    // per-task oracles
    let mut nfail = 0;
    let mut interrupted = false;
    let mut exp_stdout: Vec<u8> = Vec::new();
    let mut last_started = None;
    let mut finished: Vec<usize> = vec![];
    for (kind, id, term, out) in &shd.tee {
        let p = match sc.probes.iter().find(|p| p.id == *id) {
            Some(p) => p,
            None => {
                v.push(("spawn-cmdline".into(), "n2 ran a command string that is not in the manifest".into()));
                continue;
            }
        };
        if *kind == 0 {
            exp_stdout.extend_from_slice(format!("P{}\n", id).as_bytes());
            last_started = Some(*id);
            continue;
        }
        finished.push(*id);
        *stats.entry(format!("probe.spawn_kind_{}", match &p.expect { Expect::FdTable => "fdtable", Expect::Cwd => "cwd", Expect::Runs(_) => "volume", Expect::Bytes(_) => "bytes" })).or_default() += 1;
        if *term != p.term {
            v.push(("spawn-termination".into(), format!("{:?} should end in class {} but n2 reports {}", p.cmd, p.term, term)));
        }
        match &p.expect {
            Expect::Bytes(b) => {
                if b != out {
                    v.push(("spawn-output".into(), format!("{:?}: expected output {:?}, n2 reports {:?}", p.cmd, String::from_utf8_lossy(b), String::from_utf8_lossy(&out[..out.len().min(200)]))));
                }
            }
            Expect::Runs(runs) => {
                let mut e = Vec::new();
                for (c, n) in runs {
                    e.extend(std::iter::repeat(*c).take(*n));
                }
                if &e != out {
                    v.push(("spawn-output".into(), format!("{:?}: expected {} bytes, n2 reports {} bytes (or different content)", p.cmd, e.len(), out.len())));
                }
            }
            Expect::FdTable => {
                if let Err(e) = check_fd_table(out, &baseline) {
                    v.push(("spawn-fd-leak".into(), format!("{} (listing: {:?}; baseline {:?})", e, String::from_utf8_lossy(out), baseline)));
                }
            }
            Expect::Cwd => {
                let got = String::from_utf8_lossy(out).trim().to_string();
                if got != cwd_real {
                    v.push(("spawn-cwd".into(), format!("command ran in {:?}, build directory is {:?}", got, cwd_real)));
                }
            }
        }
        if p.subdir_out && !std::path::Path::new(&out_name(p)).parent().map(|d| d.is_dir()).unwrap_or(true) {
            v.push(("spawn-outdir".into(), format!("output directory of {} was not created", out_name(p))));
        }
        for (f, c) in &p.files {
            if disk::read_str(f).as_deref() != Some(c) {
                v.push(("spawn-redirect".into(), format!("{:?}: file {} holds {:?}", p.cmd, f, disk::read_str(f))));
            }
        }
        if let Some((path, content)) = &p.rsp {
            if disk::read_str(path).as_deref() != Some(content) {
                v.push(("spawn-rspfile".into(), format!("rspfile {} holds {:?}", path, disk::read_str(path))));
            }
        }
        match term {
            0 => {
                if !(out.is_empty() || last_started == Some(*id)) {
                    exp_stdout.extend_from_slice(format!("P{}\n", id).as_bytes());
                }
            }
            2 => {
                exp_stdout.extend_from_slice(format!("interrupted: P{}\n", id).as_bytes());
                interrupted = true;
            }
            _ => {
                exp_stdout.extend_from_slice(format!("failed: P{}\n", id).as_bytes());
                nfail += 1;
            }
        }
        exp_stdout.extend_from_slice(out);
    }
    // every command creates no stamp, so each step stays dirty; exit status by failures only
    let ok_count = shd.tee.iter().filter(|t| t.0 == 1 && t.2 == 0).count();
    if code == 0 {
        if nfail > 0 || interrupted {
            v.push(("spawn-exit-status".into(), "exit 0 although a command failed".into()));
        }
        let line = if ok_count == 0 { "n2: no work to do\n".to_string() } else { format!("n2: ran {} task{}, now up to date\n", ok_count, if ok_count == 1 { "" } else { "s" }) };
        exp_stdout.extend_from_slice(line.as_bytes());
    } else if nfail == 0 && !interrupted && v.is_empty() {
        v.push(("spawn-exit-status".into(), format!("exit {} although no command failed", code)));
    }
    if stdout != exp_stdout && v.is_empty() {
        let at = stdout.iter().zip(exp_stdout.iter()).position(|(a, b)| a != b).unwrap_or(stdout.len().min(exp_stdout.len()));
        v.push(("spawn-stdout".into(), format!("stdout differs from the in-order composition at byte {} (got {} bytes, expected {})", at, stdout.len(), exp_stdout.len())));
    }
    // an interrupted or failed build may stop early; otherwise every probe must have run
    if nfail == 0 && !interrupted && code == 0 {
        for p in &sc.probes {
            if !finished.contains(&p.id) {
                v.push(("spawn-not-run".into(), format!("{:?} never ran", p.cmd)));
            }
        }
    }
    // ---- C05 on the real process path
    let planned_fail: Vec<usize> = sc.probes.iter().filter(|p| p.term != 0 && finished.contains(&p.id)).map(|p| p.id).collect();
    if code == 0 && !planned_fail.is_empty() {
        v.push(("c05-exit0-after-failure".into(), format!("exit status 0 although the command(s) of {:?} exited non-zero / were killed by a signal", planned_fail)));
    }
    for p in &sc.probes {
        if finished.contains(&p.id) {
            let mut anc = p.after.clone();
            let mut i = 0;
            while i < anc.len() {
                if let Some(ap) = sc.probes.iter().find(|q| q.id == anc[i]) {
                    for a in &ap.after {
                        if !anc.contains(a) {
                            anc.push(*a);
                        }
                    }
                }
                i += 1;
            }
            if let Some(a) = anc.iter().find(|a| planned_fail.contains(a)) {
                v.push(("c05-ran-below-failure".into(), format!("{:?} was started although its order-only ancestor p{} failed", p.cmd, a)));
                v.push(("c01-ran-below-unfinished".into(), format!("{:?} was started although the command of its ordering ancestor p{} did not complete successfully (non-zero exit status or killed by a signal)", p.cmd, a)));
            }
        }
    }
    drop(shd);
    // second invocation: a failed / killed command was not recorded, so it must run again
    let has_int = sc.probes.iter().any(|p| p.term == 2);
    if !planned_fail.is_empty() && !has_int && v.iter().all(|x| !x.0.starts_with("spawn-panic")) {
        let sh2 = Rc::new(RefCell::new(SShared::default()));
        let mut args2: Vec<String> = vec!["-j".into(), "1".into()];
        if sc.k.is_some() {
            args2.extend(["-k".to_string(), "8".to_string()]);
        }
        let host2 = SpawnHost { sh: sh2.clone(), args: args2, rng: Rng::new(sc.sub ^ 0x5555), nested: false };
        n2::verif::install(Box::new(host2));
        IN_N2.with(|c| c.set(true));
        let (_r2, _out2) = disk::capture(|| std::panic::catch_unwind(|| n2::run::run()));
        while n2::verif::pending_tasks() > 0 {
            let _ = std::panic::catch_unwind(|| n2::verif::run_pending_task(0));
        }
        drop(n2::verif::uninstall());
        IN_N2.with(|c| c.set(false));
        n2::verif::set_interrupted(false);
        let started2: Vec<usize> = sh2.borrow().tee.iter().filter(|t| t.0 == 0).map(|t| t.1).collect();
        *stats.entry("probe.spawn_second_invocation".into()).or_default() += 1;
        for f in &planned_fail {
            if !started2.contains(f) {
                v.push(("c05-failed-command-recorded".into(), format!("p{} failed in the first invocation but the second invocation treats it as up to date", f)));
            }
        }
    }
    let nested = sh.borrow().nested_runs;
    SpawnResult { violations: v, commands: finished.len() as u64, nested_windows: nested, stats }
}

pub fn to_vlines(seed: u64, r: &SpawnResult) -> Vec<VLine> {
    r.violations
        .iter()
        .map(|(c, d)| VLine { sweep: None, seed, op: 0, prop: if c.starts_with("c05-") {
                "C05".into()
            } else if c.starts_with("c01-") {
                "C01".into()
            } else {
                "C16".into()
            }, code: c.clone(), detail: d.clone() })
        .collect()
}

pub fn minimise(sc: &SpawnScenario, sb: &Sandbox, code: &str) -> SpawnScenario {
    let mut cur = sc.clone();
    let fails = |s: &SpawnScenario| run(s, sb).violations.iter().any(|(c, _)| c == code);
    let mut i = cur.probes.len();
    while i > 0 {
        i -= 1;
        if cur.probes.len() <= 1 {
            break;
        }
        let mut c = cur.clone();
        let gone = c.probes.remove(i).id;
        for p in c.probes.iter_mut() {
            p.after.retain(|a| *a != gone);
        }
        if fails(&c) {
            cur = c;
        }
    }
    for f in [
        |s: &mut SpawnScenario| s.use_c = false,
        |s: &mut SpawnScenario| s.k = None,
        |s: &mut SpawnScenario| s.j = 1,
        |s: &mut SpawnScenario| s.nested = false,
    ] {
        let mut c = cur.clone();
        f(&mut c);
        if c != cur && fails(&c) {
            cur = c;
        }
    }
    cur
}
