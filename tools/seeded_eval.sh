#!/bin/bash
# run the property's check against every seeded change found under $1 (default /tmp/seeded/*-out)
cd /verif
for d in ${@:-/tmp/seeded/C*-out/a /tmp/seeded/C*-out/b}; do
  id=$(basename $(dirname $d) | sed 's/-out//'); v=$(basename $d)
  [ -f $d/patch.diff ] || continue
  [ "$id" = C20 ] && continue
  tools/mutant.py --patch $id-$v $d/patch.diff $id 2>&1 | tail -1 | cut -c1-330
done
