#!/bin/bash
# run the property's check against seeded changes: args = directories containing patch.diff
# (default: every /tmp/seeded/C*-out/{a,b})
cd /verif
for d in ${@:-/tmp/seeded/C*-out/a /tmp/seeded/C*-out/b}; do
  name=$(basename $(dirname $d) | sed 's/-out//'); v=$(basename $d); prop=${name%%-*}
  [ -f $d/patch.diff ] || continue
  tools/mutant.py --patch $name-$v $d/patch.diff $prop 2>&1 | tail -1 | cut -c1-330
done
