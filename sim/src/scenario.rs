//! Scenario = initial abstract project + explicit list of operations.  It is
//! the replay file: execution is a pure function of this value.
use crate::project::*;
use crate::rng::Rng;
use serde::{Deserialize, Serialize};

#[derive(Clone, Debug, Serialize, Deserialize, PartialEq, Default)]
pub struct Faults {
    /// ids of steps whose command fails in this invocation
    pub fail: Vec<usize>,
    /// failing commands write (garbage) outputs before failing
    pub fail_after_write: bool,
    /// ids of steps whose command is killed by SIGINT
    pub interrupt: Vec<usize>,
    /// ids of steps whose spawn fails (run_command returns Err)
    pub spawn_err: Vec<usize>,
    /// n2 dies at this shim point (1-based ordinal within the invocation)
    pub crash_at: Option<usize>,
    /// if the crash point is a log write: bytes of that write that persist (mod len+1)
    pub crash_db_bytes: usize,
    /// crash at the n-th log write of the invocation (1-based) instead of a point ordinal
    pub crash_db_write: Option<usize>,
    /// the log write hit by crash_db_write returns this error instead of dying (ENOSPC/EIO)
    pub db_err: bool,
    /// legal short writes on the log
    pub short_writes: bool,
    /// transient I/O error at this shim point ordinal (stat/mkdir/open/write)
    pub io_err_at: Option<usize>,
    /// raise n2's SIGINT flag at this shim point ordinal
    pub sigint_at: Option<usize>,
    /// after n2 died: run the still-running commands to completion (else they die too)
    pub orphans_finish: bool,
    /// ids of steps that write a garbage / truncated depfile
    pub bad_depfile: Vec<usize>,
}

impl Faults {
    pub fn any_injected(&self) -> bool {
        self.crash_at.is_some()
            || self.crash_db_write.is_some()
            || self.io_err_at.is_some()
            || self.sigint_at.is_some()
            || !self.spawn_err.is_empty()
            || !self.bad_depfile.is_empty()
    }
}

#[derive(Clone, Debug, Serialize, Deserialize, PartialEq)]
pub struct InvokeSpec {
    /// target names as typed (any spelling)
    pub targets: Vec<String>,
    pub j: usize,
    pub k: Option<usize>,
    /// 0 random, 1 late effects, 2 eager effects, 3 lifo exec, 4 fifo delivery,
    /// 5 lifo delivery, 6 hold (validation targets / chosen subset never finish first), 7 pct-like priorities
    pub policy: u8,
    /// decision-stream sub-seed of this invocation
    pub sub: u64,
    pub restat: bool,
    pub verbose: bool,
    pub explain: bool,
    /// pass -C <dir>: run from the parent of the project directory
    pub use_c: bool,
    /// always pass -f even for build.ninja
    pub explicit_f: bool,
    pub argv0_ninja: bool,
    /// spelling of the -f argument: 0 as is, 1 "./name", 2 "zz/../name"
    #[serde(default)]
    pub f_spelling: u8,
    pub faults: Faults,
}

impl InvokeSpec {
    pub fn plain(sub: u64) -> InvokeSpec {
        InvokeSpec {
            targets: vec![],
            j: 3,
            k: None,
            policy: 0,
            sub,
            restat: false,
            verbose: false,
            explain: false,
            use_c: false,
            explicit_f: false,
            argv0_ninja: false,
            f_spelling: 0,
            faults: Faults::default(),
        }
    }
}

#[derive(Clone, Debug, Serialize, Deserialize, PartialEq)]
pub enum Op {
    /// new content + fresh mtime (or an older one)
    EditSrc { src: usize, backwards: bool },
    TouchSrc { src: usize },
    /// give a source the same mtime as another file / far future
    OddMtime { src: usize, kind: u8 },
    RmOut { name: String },
    TamperOut { name: String },
    TouchOut { name: String },
    Salt { step: usize },
    Decor { step: usize, decor: String },
    RspVer { step: usize },
    ToggleInc { src: usize, inc: String },
    /// replace the include list of a source
    SetIncs { src: usize, incs: Vec<String> },
    DelSrc { src: usize },
    RestoreSrc { src: usize },
    /// meaning-preserving: new statement order and new spelling
    Respell { spell: u64, order_seed: u64 },
    AddStep { step: Step, pos: usize },
    RemoveStep { step: usize },
    /// move output number `idx` (modulo the implicit outputs) of `from` to step `to`
    MoveOut { from: usize, to: usize, #[serde(default)] idx: usize },
    /// exchange implicit outputs between two steps (both keep their output count)
    SwapOut { a: usize, b: usize, ia: usize, ib: usize },
    /// give output number `idx` of a step a new name (the output count stays)
    RenameOut { step: usize, idx: usize, name: String },
    /// add an output to a step
    AddOut { step: usize, name: String, #[serde(default)] front: bool },
    SetPoolDepth { pool: usize, depth: usize },
    SetDefaults { defaults: Vec<String> },
    DeleteDb,
    /// machine death without sync: cut the log to len*num/1000 bytes (or exactly `exact`)
    TruncDb { num: usize, exact: Option<usize> },
    /// point the generator input at another variant of the project
    SetVariant { variant: usize },
    Invoke(InvokeSpec),
}

#[derive(Clone, Debug, Serialize, Deserialize, PartialEq)]
pub struct Scenario {
    pub seed: u64,
    pub profile: String,
    pub project: Project,
    /// alternative projects the generator step can produce (index 0 = `project`)
    pub variants: Vec<Project>,
    pub ops: Vec<Op>,
}

/// Workload biases (percentages unless noted).
#[derive(Clone, Debug)]
pub struct Profile {
    pub name: &'static str,
    pub max_steps: usize,
    pub big_pct: u64,
    pub min_ops: usize,
    pub max_ops: usize,
    pub edit_pct: u64,
    pub fail_pct: u64,
    pub crash_pct: u64,
    pub dbcrash_pct: u64,
    pub ioerr_pct: u64,
    pub sigint_pct: u64,
    pub restat_pct: u64,
    pub bogus_pct: u64,
    pub k_pct: u64,
    pub pool_pct: u64,
    pub cycle_pct: u64,
    pub nopool_pct: u64,
    pub struct_pct: u64,
    pub dep_pct: u64,
    pub rsp_pct: u64,
    pub weird_pct: u64,
    pub subdir_pct: u64,
    pub builddir_pct: u64,
    pub altname_pct: u64,
    pub use_c_pct: u64,
    pub default_pct: u64,
    pub target_pct: u64,
    pub gen_pct: u64,
    pub wide_pct: u64,
    /// share of projects with 90..170 mostly independent steps, run with -j 58..117
    pub huge_pct: u64,
    pub trunc_pct: u64,
    pub spell_pct: u64,
    pub final_clean_invocations: usize,
}

impl Profile {
    pub fn base(name: &'static str) -> Profile {
        Profile {
            name,
            max_steps: 8,
            big_pct: 12,
            min_ops: 3,
            max_ops: 10,
            edit_pct: 45,
            fail_pct: 30,
            crash_pct: 8,
            dbcrash_pct: 4,
            ioerr_pct: 3,
            sigint_pct: 3,
            restat_pct: 5,
            bogus_pct: 5,
            k_pct: 40,
            pool_pct: 35,
            cycle_pct: 6,
            nopool_pct: 6,
            struct_pct: 8,
            dep_pct: 50,
            rsp_pct: 15,
            weird_pct: 8,
            subdir_pct: 25,
            builddir_pct: 15,
            altname_pct: 10,
            use_c_pct: 10,
            default_pct: 20,
            target_pct: 50,
            gen_pct: 0,
            wide_pct: 10,
            huge_pct: 0,
            trunc_pct: 2,
            spell_pct: 70,
            final_clean_invocations: 0,
        }
    }
    pub fn for_property(p: &str) -> Profile {
        let mut f = Profile::base("mixed");
        match p {
            "C01" => {
                f.name = "C01";
                f.gen_pct = 15;
                f.crash_pct = 2;
                f.dbcrash_pct = 0;
                f.ioerr_pct = 0;
                f.big_pct = 20;
                f.wide_pct = 20;
                f.huge_pct = 1;
            }
            "C02" => {
                f.name = "C02";
                f.gen_pct = 10;
                f.edit_pct = 55;
                f.max_ops = 12;
                f.cycle_pct = 1;
                f.nopool_pct = 1;
            }
            "C03" => {
                f.name = "C03";
                f.gen_pct = 5;
                f.edit_pct = 55;
                f.restat_pct = 10;
                f.cycle_pct = 1;
                f.nopool_pct = 1;
                f.crash_pct = 3;
            }
            "C04" => {
                f.name = "C04";
                f.gen_pct = 15;
                f.pool_pct = 80;
                f.wide_pct = 60;
                f.huge_pct = 3;
                f.nopool_pct = 15;
                f.crash_pct = 1;
                f.dbcrash_pct = 0;
                f.edit_pct = 25;
            }
            "C05" => {
                f.name = "C05";
                f.gen_pct = 10;
                f.fail_pct = 75;
                f.k_pct = 85;
                f.sigint_pct = 8;
                f.crash_pct = 1;
                f.dbcrash_pct = 0;
                f.edit_pct = 25;
            }
            "C06" => {
                f.name = "C06";
                f.gen_pct = 25;
                f.default_pct = 35;
                f.cycle_pct = 25;
                f.fail_pct = 40;
                f.big_pct = 20;
                f.edit_pct = 25;
            }
            "C07" => {
                f.name = "C07";
                f.crash_pct = 25;
                f.dbcrash_pct = 45;
                f.trunc_pct = 10;
                f.fail_pct = 10;
                f.cycle_pct = 0;
                f.nopool_pct = 0;
                f.bogus_pct = 0;
                f.final_clean_invocations = 2;
                f.edit_pct = 30;
            }
            "C08" => {
                f.name = "C08";
                f.struct_pct = 45;
                f.edit_pct = 55;
                f.weird_pct = 25;
                f.crash_pct = 2;
                f.cycle_pct = 0;
                f.nopool_pct = 0;
            }
            "C08big" => {
                f.name = "C08big";
            }
            "C07big" => {
                f.name = "C07big";
            }
            "C09" => {
                f.name = "C09";
                f.dep_pct = 95;
                f.edit_pct = 55;
                f.restat_pct = 6;
                f.cycle_pct = 0;
                f.nopool_pct = 0;
            }
            "C16" => {
                f.name = "C16";
                f.rsp_pct = 50;
                f.subdir_pct = 60;
                f.weird_pct = 20;
                f.sigint_pct = 8;
                f.fail_pct = 40;
            }
            "C17" => {
                f.name = "C17";
                f.gen_pct = 100;
                f.cycle_pct = 1;
                f.nopool_pct = 1;
                f.bogus_pct = 8;
                f.altname_pct = 30;
            }
            "C18" => {
                f.name = "C18";
                f.target_pct = 80;
                f.default_pct = 45;
                f.bogus_pct = 20;
                f.builddir_pct = 40;
                f.altname_pct = 40;
                f.use_c_pct = 40;
                f.struct_pct = 20;
                f.gen_pct = 25;
            }
            "C19" => {
                f.name = "C19";
                f.fail_pct = 45;
                f.gen_pct = 15;
                f.big_pct = 20;
            }
            _ => {
                f.gen_pct = 8;
            }
        }
        f
    }
}

const DECORS: &[&str] = &[
    "'a b' ",
    "$HOME ",
    "\"q\" ",
    "a>b ",
    "x && y; ",
    "\\n ",
    "$$ ",
    "`id` ",
    "\u{fc}ber ",
    "a=b,c ",
    "2>&1 | tee ",
];

fn name_for(kind: &str, k: usize, r: &mut Rng, pf: &Profile) -> String {
    let base = if r.pct(pf.weird_pct) {
        match r.below(7) {
            0 => format!("{} {}", kind, k),
            1 => format!("{}:{}", kind, k),
            2 => format!("{}\u{fc}{}", kind, k),
            3 => format!("{}${}", kind, k),
            4 => format!("{}{}-{}", kind, k, "x".repeat(100 + r.below(90))),
            5 => format!("{}\u{2501}{}", kind, k),
            _ => format!("{}{}.x+y", kind, k),
        }
    } else {
        format!("{}{}", kind, k)
    };
    if r.pct(pf.subdir_pct) {
        match r.below(3) {
            0 => format!("d/{}", base),
            1 => format!("d/e/{}", base),
            _ => format!("g{}/{}", k % 3, base),
        }
    } else {
        base
    }
}

pub fn gen_project(r: &mut Rng, pf: &Profile) -> Project {
    let nsrc = 1 + r.below(5);
    let mut srcs: Vec<Src> = Vec::new();
    for i in 0..nsrc {
        // header-like names stay depfile-safe (no spaces / colons / `$`)
        let name = if r.pct(pf.subdir_pct) {
            format!("inc/f{}", i)
        } else {
            format!("f{}", i)
        };
        srcs.push(Src {
            name,
            ver: 0,
            incs: vec![],
            soft: r.pct(30),
            exists: true,
            tag: String::new(),
            mg: false,
        });
        // a missing soft include is always reported (-MG style): otherwise the command's
        // result would depend on the existence of a file n2 was never told about, which no
        // depfile-based build system can notice when the file appears later
        let l = srcs.len() - 1;
        srcs[l].mg = srcs[l].soft;
    }
    for i in 0..nsrc {
        for j in i + 1..nsrc {
            if r.pct(25) {
                let n = srcs[j].name.clone();
                srcs[i].incs.push(n);
            }
        }
    }
    // phantom includes: a header that never exists, reported -MG style: the including
    // steps are never recorded and re-run in every invocation
    for i in 0..nsrc {
        if r.pct(6) {
            srcs[i].incs.push(format!("ghost{}.h", i));
            srcs[i].soft = true;
            srcs[i].mg = true;
        }
    }
    let mut pools = Vec::new();
    if r.pct(pf.pool_pct + 20) {
        for i in 0..1 + r.below(3) {
            let d = if r.pct(10) { 0 } else { 1 + r.below(3) };
            pools.push((format!("p{}", i), d));
        }
    }
    let big = r.pct(pf.big_pct);
    let huge = r.pct(pf.huge_pct);
    let n = if huge { 90 + r.below(81) } else { 1 + r.below(if big { pf.max_steps * 3 } else { pf.max_steps }) };
    let wide = huge || r.pct(pf.wide_pct);
    let mut steps: Vec<Step> = Vec::new();
    for k in 0..n {
        let phony = r.pct(12);
        let nouts = if phony || r.pct(75) { 1 } else { 2 + r.below(2) };
        let outs: Vec<String> = (0..nouts)
            .map(|x| {
                if x == 0 {
                    name_for("o", k, r, pf)
                } else {
                    format!("{}_{}", name_for("o", k, r, pf), x)
                }
            })
            .collect();
        let nexp = 1 + r.below(nouts);
        let mut cand_all: Vec<String> = srcs.iter().map(|s| s.name.clone()).collect();
        let mut cand_dirty = cand_all.clone();
        if !wide || r.pct(if huge { 8 } else { 30 }) {
            for s in &steps {
                for o in &s.outs {
                    cand_all.push(o.clone());
                    if !s.phony {
                        cand_dirty.push(o.clone());
                    }
                }
            }
        }
        let mut used: Vec<String> = outs.clone();
        let pickn = |r: &mut Rng, c: &Vec<String>, n: usize, used: &mut Vec<String>| {
            let mut v = Vec::new();
            for _ in 0..n {
                if c.is_empty() {
                    break;
                }
                let f = c[r.below(c.len())].clone();
                if !used.contains(&f) {
                    used.push(f.clone());
                    v.push(f);
                }
            }
            v
        };
        let ne = r.below(4);
        let exp = pickn(r, if phony { &cand_all } else { &cand_dirty }, ne, &mut used);
        let ni = r.below(3);
        let imp = if phony {
            vec![]
        } else {
            pickn(r, &cand_dirty, ni, &mut used)
        };
        let no = if r.pct(40) { 1 + r.below(2) } else { 0 };
        let oo = pickn(r, &cand_all, no, &mut used);
        steps.push(Step {
            id: k,
            outs,
            nexp,
            exp,
            imp,
            oo,
            val: vec![],
            phony,
            salt: 0,
            decor: String::new(),
            depmode: 0,
            restat: false,
            pool: None,
            rsp: None,
            hide_success: false,
            removed: false,
            generator: false,
            touches: None,
            nl: 0,
        });
    }
    let allouts: Vec<(usize, String)> = steps
        .iter()
        .flat_map(|s| s.outs.iter().map(move |o| (s.id, o.clone())))
        .collect();
    for k in 0..n {
        if r.pct(20) {
            let (sid, o) = allouts[r.below(allouts.len())].clone();
            let st = &steps[k];
            if sid != k && !st.exp.contains(&o) && !st.imp.contains(&o) && !st.oo.contains(&o) {
                steps[k].val.push(o);
            }
        }
    }
    for k in 0..n {
        if steps[k].phony {
            continue;
        }
        let has_src = steps[k]
            .exp
            .iter()
            .chain(&steps[k].imp)
            .any(|f| srcs.iter().any(|s| &s.name == f));
        if has_src && r.pct(pf.dep_pct) {
            steps[k].depmode = if r.pct(70) { 1 } else { 2 };
        }
        steps[k].restat = r.pct(15);
        if r.pct(if huge { pf.pool_pct / 8 } else { pf.pool_pct }) && !pools.is_empty() {
            steps[k].pool = Some(pools[r.below(pools.len())].0.clone());
        } else if r.pct(5) {
            steps[k].pool = Some("console".into());
        } else if r.pct(2) {
            steps[k].pool = Some("".into());
        }
        if r.pct(pf.rsp_pct) {
            let p = if r.pct(40) {
                format!("rsp/d{}/s{}.rsp", k % 2, k)
            } else {
                format!("s{}.rsp", k)
            };
            steps[k].rsp = Some(Rsp { path: p, ver: 0 });
        }
        if r.pct(pf.weird_pct + 5) {
            steps[k].decor = DECORS[r.below(DECORS.len())].to_string();
        }
        steps[k].hide_success = r.pct(8);
        if r.pct(pf.weird_pct / 2 + 3) {
            steps[k].nl = if steps[k].rsp.is_some() { 2 } else { 1 };
        }
    }
    // the same file named twice among a step's inputs (CMake does this): in two sections or twice in one
    for k in 0..n {
        if r.pct(6) {
            let all: Vec<String> = steps[k].exp.iter().chain(&steps[k].imp).chain(&steps[k].oo).cloned().collect();
            if all.is_empty() {
                continue;
            }
            let f = all[r.below(all.len())].clone();
            let dirtying_ok = steps[k].exp.contains(&f) || steps[k].imp.contains(&f);
            match r.below(3) {
                0 if !steps[k].phony && dirtying_ok => steps[k].imp.push(f),
                1 => steps[k].oo.push(f),
                _ if !steps[k].phony && dirtying_ok => {
                    let pos = r.below(steps[k].imp.len() + 1);
                    steps[k].imp.insert(pos, f)
                }
                _ => steps[k].oo.insert(0, f),
            }
        }
    }
    // generated-header pattern: a dedicated source of step k includes an output of an
    // earlier step; k orders itself after the producer through an order-only input
    for k in 1..n {
        if steps[k].phony || steps[k].depmode == 0 || !r.pct(30) {
            continue;
        }
        let prods: Vec<usize> = (0..k).filter(|&p| !steps[p].phony).collect();
        if prods.is_empty() {
            continue;
        }
        let p = prods[r.below(prods.len())];
        let g = steps[p].outs[r.below(steps[p].outs.len())].clone();
        if g.contains(' ') || g.contains(':') || g.contains('$') {
            continue; // keep depfile-safe
        }
        let name = format!("gsrc{}", k);
        srcs.push(Src { name: name.clone(), ver: 0, incs: vec![g.clone()], soft: false, exists: true, tag: String::new(), mg: false });
        if r.pct(50) {
            steps[k].exp.push(name);
        } else {
            steps[k].imp.push(name);
        }
        let via = g.clone();
        if !steps[k].exp.contains(&via) && !steps[k].imp.contains(&via) && !steps[k].oo.contains(&via) {
            steps[k].oo.push(via);
        }
    }
    // Meson-like steps: a private declared input, or a private header found through a
    // private source, is touched by the command itself on every run
    for k in 0..n {
        if steps[k].phony || !r.pct(8) {
            continue;
        }
        if steps[k].depmode != 0 && r.pct(60) {
            let h = format!("priv{}.h", k);
            let c = format!("psrc{}", k);
            srcs.push(Src { name: h.clone(), ver: 0, incs: vec![], soft: false, exists: true, tag: String::new(), mg: false });
            srcs.push(Src { name: c.clone(), ver: 0, incs: vec![h.clone()], soft: false, exists: true, tag: String::new(), mg: false });
            steps[k].imp.push(c);
            steps[k].touches = Some(h);
        } else {
            let c = format!("psrc{}", k);
            srcs.push(Src { name: c.clone(), ver: 0, incs: vec![], soft: false, exists: true, tag: String::new(), mg: false });
            steps[k].imp.push(c.clone());
            steps[k].touches = Some(c);
        }
    }
    let mut defaults = Vec::new();
    if r.pct(pf.default_pct) {
        for _ in 0..1 + r.below(2) {
            let o = if r.pct(10) {
                srcs[r.below(srcs.len())].name.clone()
            } else {
                allouts[r.below(allouts.len())].1.clone()
            };
            if !defaults.contains(&o) {
                defaults.push(o);
            }
        }
    }
    // occasionally close an ordering cycle (also through a validation edge only)
    if r.pct(pf.cycle_pct) && n >= 2 {
        let a = r.below(n - 1);
        let b = a + 1 + r.below(n - a - 1);
        let o = steps[b].outs[0].clone();
        let sa = &steps[a];
        if !sa.phony
            && !steps[b].phony
            && !sa.exp.contains(&o)
            && !sa.imp.contains(&o)
            && !sa.oo.contains(&o)
            && !sa.val.contains(&o)
        {
            match r.below(3) {
                0 => steps[a].oo.push(o),
                1 => steps[a].imp.push(o),
                _ => steps[a].val.push(o),
            }
        }
    }
    if r.pct(pf.nopool_pct) {
        let a = r.below(n);
        if !steps[a].phony {
            steps[a].pool = Some("nopool".into());
        }
    }
    let order = (0..n).collect();
    Project {
        srcs,
        steps,
        pools,
        defaults,
        order,
        spell: if r.pct(pf.spell_pct) { 1 + r.next() % 1_000_000 } else { 0 },
        builddir: if r.pct(pf.builddir_pct) {
            Some(if r.pct(50) { "bd".into() } else { "out/bd".into() })
        } else {
            None
        },
        manifest: if r.pct(pf.altname_pct) {
            "alt.ninja".into()
        } else {
            "build.ninja".into()
        },
    }
}

/// Apply the abstract part of an edit to a project (no disk access).
/// Returns false if the operation does not apply to this project.
pub fn apply_abstract(p: &mut Project, op: &Op) -> bool {
    match op {
        Op::EditSrc { src, .. } => {
            if *src < p.srcs.len() && p.srcs[*src].exists {
                p.srcs[*src].ver += 1;
                true
            } else {
                false
            }
        }
        Op::TouchSrc { src } | Op::OddMtime { src, .. } => *src < p.srcs.len() && p.srcs[*src].exists,
        Op::RmOut { .. } | Op::TamperOut { .. } | Op::TouchOut { .. } => true,
        Op::Salt { step } => {
            if *step < p.steps.len() && !p.steps[*step].removed && !p.steps[*step].phony {
                p.steps[*step].salt += 1;
                true
            } else {
                false
            }
        }
        Op::Decor { step, decor } => {
            if *step < p.steps.len() && !p.steps[*step].removed && !p.steps[*step].phony {
                p.steps[*step].decor = decor.clone();
                true
            } else {
                false
            }
        }
        Op::RspVer { step } => {
            if *step < p.steps.len() && !p.steps[*step].removed {
                if let Some(r) = &mut p.steps[*step].rsp {
                    r.ver += 1;
                    return true;
                }
            }
            false
        }
        Op::ToggleInc { src, inc } => {
            if *src >= p.srcs.len() || p.src(inc).is_none() || &p.srcs[*src].name == inc || inc.starts_with("gsrc") || inc.starts_with("psrc") || inc.starts_with("priv") || p.srcs[*src].name.starts_with("psrc") || p.srcs[*src].name.starts_with("priv") {
                return false;
            }
            // keep the include graph acyclic: only towards higher indices
            if p.src(inc).unwrap() <= *src {
                return false;
            }
            if let Some(pos) = p.srcs[*src].incs.iter().position(|x| x == inc) {
                p.srcs[*src].incs.remove(pos);
            } else {
                p.srcs[*src].incs.push(inc.clone());
            }
            p.srcs[*src].ver += 1;
            true
        }
        Op::SetIncs { src, incs } => {
            if *src >= p.srcs.len() {
                return false;
            }
            p.srcs[*src].incs = incs.clone();
            p.srcs[*src].ver += 1;
            true
        }
        Op::DelSrc { src } => {
            if *src < p.srcs.len() && p.srcs[*src].exists {
                p.srcs[*src].exists = false;
                true
            } else {
                false
            }
        }
        Op::RestoreSrc { src } => {
            if *src < p.srcs.len() && !p.srcs[*src].exists {
                p.srcs[*src].exists = true;
                true
            } else {
                false
            }
        }
        Op::Respell { spell, order_seed } => {
            p.spell = *spell;
            let mut r = Rng::new(*order_seed);
            r.shuffle(&mut p.order);
            true
        }
        Op::AddStep { step, pos } => {
            if p.steps.iter().any(|s| s.id == step.id) {
                return false;
            }
            for o in &step.outs {
                if p.producer(o).is_some() || p.src(o).is_some() {
                    return false;
                }
            }
            p.steps.push(step.clone());
            let idx = p.steps.len() - 1;
            let pos = (*pos).min(p.order.len());
            p.order.insert(pos, idx);
            true
        }
        Op::RemoveStep { step } => {
            if *step >= p.steps.len() || p.steps[*step].removed || p.steps[*step].generator {
                return false;
            }
            if p.live_steps().count() <= 1 {
                return false;
            }
            p.steps[*step].removed = true;
            true
        }
        Op::MoveOut { from, to, idx } => {
            if *from >= p.steps.len() || *to >= p.steps.len() || from == to {
                return false;
            }
            let (f, t) = (&p.steps[*from], &p.steps[*to]);
            if f.removed || t.removed || f.phony || t.phony || f.generator || t.generator {
                return false;
            }
            if f.outs.len() < 2 || f.outs.len() <= f.nexp {
                return false;
            }
            let nexp = p.steps[*from].nexp;
            let pos = nexp + idx % (p.steps[*from].outs.len() - nexp);
            let o = p.steps[*from].outs.remove(pos);
            // moving must not create an ordering cycle: `to` must not depend on ... keep simple:
            // only allow when `to` does not (transitively) consume the output and vice versa
            p.steps[*to].outs.push(o.clone());
            let cyc = p.order_anc(*to).contains(to) || p.order_anc(*from).contains(from);
            let self_in = p.steps[*to]
                .exp
                .iter()
                .chain(&p.steps[*to].imp)
                .chain(&p.steps[*to].oo)
                .chain(&p.steps[*to].val)
                .any(|x| x == &o);
            if cyc || self_in {
                p.steps[*to].outs.pop();
                p.steps[*from].outs.insert(pos, o);
                return false;
            }
            true
        }
        Op::SwapOut { a, b, ia, ib } => {
            if *a >= p.steps.len() || *b >= p.steps.len() || a == b {
                return false;
            }
            let (f, t) = (&p.steps[*a], &p.steps[*b]);
            if f.removed || t.removed || f.phony || t.phony || f.generator || t.generator {
                return false;
            }
            if f.outs.len() < 2 && t.outs.len() < 2 {
                return false; // (that would be a plain exchange of two whole steps' outputs)
            }
            let pa = ia % f.outs.len();
            let pb = ib % t.outs.len();
            let (oa, ob) = (f.outs[pa].clone(), t.outs[pb].clone());
            p.steps[*a].outs[pa] = ob.clone();
            p.steps[*b].outs[pb] = oa.clone();
            let cyc = p.order_anc(*a).contains(a) || p.order_anc(*b).contains(b);
            let self_in = |s: &Step| s.exp.iter().chain(&s.imp).chain(&s.oo).chain(&s.val).any(|x| s.outs.contains(x));
            if cyc || self_in(&p.steps[*a]) || self_in(&p.steps[*b]) {
                p.steps[*a].outs[pa] = oa;
                p.steps[*b].outs[pb] = ob;
                return false;
            }
            true
        }
        Op::RenameOut { step, idx, name } => {
            if *step >= p.steps.len() || p.steps[*step].removed || p.steps[*step].phony || p.steps[*step].generator {
                return false;
            }
            if p.producer(name).is_some() || p.src(name).is_some() {
                return false;
            }
            let pos = idx % p.steps[*step].outs.len();
            let old = p.steps[*step].outs[pos].clone();
            // only outputs nothing else refers to
            let used = p.live_steps().any(|(_, t)| t.exp.iter().chain(&t.imp).chain(&t.oo).chain(&t.val).any(|f| *f == old))
                || p.defaults.contains(&old)
                || p.srcs.iter().any(|s| s.incs.contains(&old));
            if used {
                return false;
            }
            p.steps[*step].outs[pos] = name.clone();
            true
        }
        Op::AddOut { step, name, front } => {
            if *step >= p.steps.len() || p.steps[*step].removed || p.steps[*step].phony || p.steps[*step].generator {
                return false;
            }
            if p.producer(name).is_some() || p.src(name).is_some() {
                return false;
            }
            if *front {
                p.steps[*step].outs.insert(0, name.clone());
                p.steps[*step].nexp += 1;
            } else {
                p.steps[*step].outs.push(name.clone());
            }
            true
        }
        Op::SetPoolDepth { pool, depth } => {
            if *pool < p.pools.len() {
                p.pools[*pool].1 = *depth;
                true
            } else {
                false
            }
        }
        Op::SetDefaults { defaults } => {
            let m = p.mentioned();
            if defaults.iter().any(|d| !m.contains(d) && p.src(d).is_none()) {
                return false;
            }
            p.defaults = defaults.clone();
            true
        }
        Op::DeleteDb | Op::TruncDb { .. } | Op::SetVariant { .. } | Op::Invoke(_) => true,
    }
}

fn gen_invoke(r: &mut Rng, p: &Project, pf: &Profile, sub: u64, stale: &[String], allow_faults: bool) -> InvokeSpec {
    let allouts = p.all_outs();
    let mut targets = Vec::new();
    if r.pct(pf.target_pct) && !allouts.is_empty() {
        for _ in 0..1 + r.below(2) {
            let t = allouts[r.below(allouts.len())].clone();
            let t = if r.pct(25) { format!("./{}", t) } else if r.pct(8) { format!("q/../{}", t) } else { t };
            if !targets.contains(&t) {
                targets.push(t);
            }
        }
        if r.pct(5) && !p.srcs.is_empty() {
            targets.push(p.srcs[r.below(p.srcs.len())].name.clone());
        }
    }
    if r.pct(pf.bogus_pct) {
        let b = if !stale.is_empty() && r.pct(60) {
            stale[r.below(stale.len())].clone()
        } else {
            "zzz-unknown".to_string()
        };
        let pos = r.below(targets.len() + 1);
        targets.insert(pos, b);
    }
    let mut f = Faults::default();
    let ids: Vec<usize> = p.live_steps().filter(|(_, s)| !s.phony).map(|(_, s)| s.id).collect();
    if r.pct(pf.fail_pct) {
        let rate = [10, 20, 50][r.below(3)];
        for &i in &ids {
            if r.pct(rate) {
                f.fail.push(i);
            }
        }
        f.fail_after_write = r.pct(50);
    }
    if allow_faults {
        if r.pct(pf.sigint_pct) && !ids.is_empty() {
            if r.pct(50) {
                f.interrupt.push(ids[r.below(ids.len())]);
            } else {
                f.sigint_at = Some(1 + r.below(80));
            }
        }
        if r.pct(pf.crash_pct) {
            f.crash_at = Some(1 + r.below(120));
            f.crash_db_bytes = r.below(64);
            f.orphans_finish = r.pct(50);
        } else if r.pct(pf.dbcrash_pct) {
            let span = if r.pct(50) { 4 } else { 24 };
            f.crash_db_write = Some(1 + r.below(span));
            f.crash_db_bytes = match r.below(8) {
                0 => 0,
                1 => 1,
                2 => 2,
                3 => 3,
                4 => 10_000, // clamped to len-1 by the host
                5 => 10_001, // clamped to len
                _ => r.below(64),
            };
            f.db_err = r.pct(25);
            f.orphans_finish = r.pct(50);
        }
        if r.pct(pf.ioerr_pct) {
            f.io_err_at = Some(1 + r.below(60));
        }
        if r.pct(pf.ioerr_pct) && !ids.is_empty() {
            f.spawn_err.push(ids[r.below(ids.len())]);
        }
        if r.pct(pf.ioerr_pct) && !ids.is_empty() {
            f.bad_depfile.push(ids[r.below(ids.len())]);
        }
        f.short_writes = r.pct(10);
    }
    InvokeSpec {
        targets,
        j: if p.live_steps().count() >= 60 && r.pct(80) {
            58 + r.below(60)
        } else if r.pct(15) {
            1
        } else {
            1 + r.below(8)
        },
        k: if r.pct(pf.k_pct) { Some(1 + r.below(4)) } else { None },
        policy: r.below(8) as u8,
        sub,
        restat: r.pct(pf.restat_pct),
        verbose: r.pct(5),
        explain: r.pct(4),
        use_c: r.pct(pf.use_c_pct),
        explicit_f: r.pct(20),
        argv0_ninja: r.pct(5),
        f_spelling: if r.pct(30) { 1 + r.below(2) as u8 } else { 0 },
        faults: f,
    }
}

fn gen_edit(r: &mut Rng, p: &Project, pf: &Profile, next_id: &mut usize) -> Option<Op> {
    let nsteps = p.steps.len();
    let nsrc = p.srcs.len();
    let real_outs: Vec<String> = p
        .live_steps()
        .filter(|(_, s)| !s.phony && !s.generator)
        .flat_map(|(_, s)| s.outs.clone())
        .collect();
    let y = r.below(100) as u64;
    let structural = r.pct(pf.struct_pct);
    if structural {
        return Some(match r.below(10) {
            9 => Op::SwapOut { a: r.below(nsteps), b: r.below(nsteps), ia: r.below(4), ib: r.below(4) },
            8 => {
                let id = *next_id;
                *next_id += 1;
                Op::RenameOut { step: r.below(nsteps), idx: r.below(4), name: format!("y{}", id) }
            }
            7 => {
                if p.pools.is_empty() {
                    return None;
                }
                Op::SetPoolDepth { pool: r.below(p.pools.len()), depth: r.below(4) }
            }
            6 => {
                let outs = p.all_outs();
                let mut d = Vec::new();
                for _ in 0..r.below(3) {
                    let o = outs[r.below(outs.len())].clone();
                    if !d.contains(&o) {
                        d.push(o);
                    }
                }
                Op::SetDefaults { defaults: d }
            }
            0 | 1 => Op::Respell {
                spell: 1 + r.next() % 1_000_000,
                order_seed: r.next(),
            },
            2 => {
                let id = *next_id;
                *next_id += 1;
                let cands: Vec<String> = p
                    .srcs
                    .iter()
                    .map(|x| x.name.clone())
                    .filter(|n| !n.starts_with("psrc") && !n.starts_with("priv"))
                    .chain(real_outs.iter().cloned())
                    .collect();
                let a = cands[r.below(cands.len())].clone();
                Op::AddStep {
                    step: Step {
                        id,
                        outs: vec![name_for("n", id, r, pf)],
                        nexp: 1,
                        exp: vec![a],
                        imp: vec![],
                        oo: vec![],
                        val: vec![],
                        phony: false,
                        salt: 0,
                        decor: String::new(),
                        depmode: 0,
                        restat: false,
                        pool: None,
                        rsp: None,
                        hide_success: false,
                        removed: false,
                        generator: false,
                        touches: None,
                        nl: 0,
                    },
                    pos: r.below(p.order.len() + 1),
                }
            }
            3 => {
                // remove a leaf step
                let leafs: Vec<usize> = (0..nsteps)
                    .filter(|&i| {
                        let s = &p.steps[i];
                        !s.removed
                            && !s.generator
                            && !p.live_steps().any(|(_, t)| {
                                t.exp.iter().chain(&t.imp).chain(&t.oo).chain(&t.val).any(|f| s.outs.contains(f))
                            })
                            && !p.defaults.iter().any(|d| s.outs.contains(d))
                    })
                    .collect();
                if leafs.is_empty() {
                    return None;
                }
                Op::RemoveStep { step: leafs[r.below(leafs.len())] }
            }
            4 => Op::MoveOut { from: r.below(nsteps), to: r.below(nsteps), idx: r.below(4) },
            _ => {
                let id = *next_id;
                *next_id += 1;
                Op::AddOut { step: r.below(nsteps), name: format!("x{}", id), front: r.pct(35) }
            }
        });
    }
    Some(if y < 30 {
        Op::EditSrc { src: r.below(nsrc), backwards: r.pct(15) }
    } else if y < 38 {
        Op::TouchSrc { src: r.below(nsrc) }
    } else if y < 42 {
        Op::OddMtime { src: r.below(nsrc), kind: r.below(3) as u8 }
    } else if y < 54 {
        if real_outs.is_empty() {
            return None;
        }
        Op::RmOut { name: real_outs[r.below(real_outs.len())].clone() }
    } else if y < 62 {
        if real_outs.is_empty() {
            return None;
        }
        Op::TamperOut { name: real_outs[r.below(real_outs.len())].clone() }
    } else if y < 66 {
        if real_outs.is_empty() {
            return None;
        }
        Op::TouchOut { name: real_outs[r.below(real_outs.len())].clone() }
    } else if y < 78 {
        Op::Salt { step: r.below(nsteps) }
    } else if y < 81 {
        Op::Decor { step: r.below(nsteps), decor: DECORS[r.below(DECORS.len())].to_string() }
    } else if y < 85 {
        Op::RspVer { step: r.below(nsteps) }
    } else if y < 93 {
        if nsrc < 2 {
            return None;
        }
        let i = r.below(nsrc - 1);
        let j = i + 1 + r.below(nsrc - i - 1);
        Op::ToggleInc { src: i, inc: p.srcs[j].name.clone() }
    } else if y < 96 {
        Op::DelSrc { src: r.below(nsrc) }
    } else if y < 98 {
        Op::RestoreSrc { src: r.below(nsrc) }
    } else {
        if p.pools.is_empty() {
            return None;
        }
        Op::SetPoolDepth { pool: r.below(p.pools.len()), depth: r.below(4) }
    })
}

/// Add a generator step (output = the manifest) to a project.
fn add_generator(p: &mut Project, r: &mut Rng) {
    let id = 900;
    let mut imp = vec![];
    // share an input with user targets sometimes
    let shareable: Vec<String> = p.srcs.iter().map(|s| s.name.clone()).filter(|n| !n.starts_with("psrc") && !n.starts_with("priv")).collect();
    if r.pct(40) && !shareable.is_empty() {
        imp.push(shareable[r.below(shareable.len())].clone());
    }
    let mut oo = vec![];
    if r.pct(25) {
        let outs: Vec<String> = p.live_steps().flat_map(|(_, s)| s.outs.clone()).collect();
        if !outs.is_empty() {
            oo.push(outs[r.below(outs.len())].clone());
        }
    }
    p.srcs.push(Src { name: "gen.in".into(), ver: 0, incs: vec![], soft: false, exists: true, tag: "#variant=0".into(), mg: false });
    p.steps.push(Step {
        id,
        // sometimes the manifest is the generator's only output (a single-file manifest)
        outs: if r.pct(35) { vec![p.manifest.clone()] } else { vec![p.manifest.clone(), format!("{}.inc0", p.manifest), format!("{}.inc1", p.manifest)] },
        nexp: 1,
        exp: vec!["gen.in".into()],
        imp,
        oo,
        val: vec![],
        phony: false,
        salt: 0,
        decor: String::new(),
        depmode: 0,
        restat: r.pct(50),
        pool: None,
        rsp: None,
        hide_success: false,
        removed: false,
        generator: true,
        touches: None,
        nl: 0,
    });
    let idx = p.steps.len() - 1;
    let pos = r.below(p.order.len() + 1);
    p.order.insert(pos, idx);
}

pub fn gen_scenario(seed: u64, pf: &Profile) -> Scenario {
    if pf.name == "C08big" {
        return crate::bigshape::gen_bigshape(seed);
    }
    if pf.name == "C07big" {
        return crate::bigshape::gen_c07big(seed);
    }
    let root = Rng::new(seed);
    let mut r = root.sub(1, 1);
    let mut project = gen_project(&mut r, pf);
    let with_gen = r.pct(pf.gen_pct);
    let mut variants: Vec<Project> = Vec::new();
    let mut next_id = 100;
    if with_gen {
        add_generator(&mut project, &mut r);
        variants.push(project.clone());
        let nv = 1 + r.below(3);
        for _ in 0..nv {
            let mut v = variants.last().unwrap().clone();
            let mut pf2 = pf.clone();
            pf2.struct_pct = 70;
            for _ in 0..1 + r.below(3) {
                if let Some(op) = gen_edit(&mut r, &v, &pf2, &mut next_id) {
                    match op {
                        Op::Salt { .. } | Op::AddStep { .. } | Op::RemoveStep { .. } | Op::MoveOut { .. } | Op::SwapOut { .. } | Op::RenameOut { .. } | Op::AddOut { .. } | Op::Decor { .. } | Op::RspVer { .. } | Op::SetPoolDepth { .. } | Op::SetDefaults { .. } => {
                            apply_abstract(&mut v, &op);
                        }
                        Op::Respell { order_seed, spell } => {
                            apply_abstract(&mut v, &Op::Respell { spell, order_seed });
                        }
                        _ => {}
                    }
                }
            }
            // the regenerated manifest may declare its own generator step differently
            // (e.g. a generator that lists the files it read as implicit inputs)
            if r.pct(30) {
                let shareable: Vec<String> = v.srcs.iter().map(|s| s.name.clone()).filter(|n| !n.starts_with("psrc") && !n.starts_with("priv") && n != "gen.in").collect();
                if let Some(g) = v.steps.iter_mut().find(|s| s.generator) {
                    if !g.imp.is_empty() && r.pct(40) {
                        g.imp.pop();
                    } else if !shareable.is_empty() {
                        let n = shareable[r.below(shareable.len())].clone();
                        if !g.imp.contains(&n) {
                            g.imp.push(n);
                        }
                    }
                }
            }
            variants.push(v);
        }
    }
    let mut cur = project.clone();
    let mut ops = Vec::new();
    let nops = pf.min_ops + r.below(pf.max_ops - pf.min_ops + 1);
    let mut stale: Vec<String> = Vec::new();
    let mut cur_variant = 0usize;
    for opi in 0..nops {
        if opi > 0 && r.pct(pf.edit_pct) {
            if r.pct(pf.trunc_pct) {
                ops.push(if r.pct(30) {
                    Op::DeleteDb
                } else {
                    Op::TruncDb { num: r.below(1001), exact: if r.pct(30) { Some(r.below(12)) } else { None } }
                });
                continue;
            }
            if with_gen && r.pct(45) {
                let v = r.below(variants.len());
                ops.push(Op::SetVariant { variant: v });
                // names of the other variants are "stale" candidates for bogus targets
                for (_, s) in variants[cur_variant].live_steps() {
                    stale.extend(s.outs.clone());
                }
                cur_variant = v;
                // from the generator's point of view the project is now variant v
                // (sources keep their own evolution: copy them over)
                let srcs = cur.srcs.clone();
                cur = variants[v].clone();
                cur.srcs = srcs;
                continue;
            }
            let op = match gen_edit(&mut r, &cur, pf, &mut next_id) {
                Some(op) => op,
                None => continue,
            };
            if with_gen {
                // structural edits go through the generator only
                match op {
                    Op::Salt { .. } | Op::AddStep { .. } | Op::RemoveStep { .. } | Op::MoveOut { .. } | Op::SwapOut { .. } | Op::RenameOut { .. } | Op::AddOut { .. } | Op::Respell { .. } | Op::Decor { .. } | Op::RspVer { .. } | Op::SetPoolDepth { .. } | Op::SetDefaults { .. } => continue,
                    _ => {}
                }
            }
            if let Op::RemoveStep { step } = &op {
                stale.extend(cur.steps[*step].outs.clone());
            }
            if let Op::MoveOut { .. } = &op {
                // fine: name still exists
            }
            if apply_abstract(&mut cur, &op) {
                ops.push(op);
            }
            continue;
        }
        let spec = gen_invoke(&mut r, &cur, pf, opi as u64, &stale, true);
        ops.push(Op::Invoke(spec));
    }
    for i in 0..pf.final_clean_invocations {
        let mut spec = gen_invoke(&mut r, &cur, pf, 1000 + i as u64, &[], false);
        spec.faults = Faults::default();
        spec.restat = false;
        spec.targets.clear();
        spec.k = None;
        ops.push(Op::Invoke(spec));
    }
    Scenario {
        seed,
        profile: pf.name.to_string(),
        project,
        variants,
        ops,
    }
}

/// Base history for the C07 crash-point sweep: fault-free builds and edits, one swept
/// invocation, two fault-free invocations after it.  Returns the index of the swept op.
pub fn gen_sweep_base(seed: u64) -> (Scenario, usize) {
    let mut pf = Profile::for_property("C07");
    pf.name = "C07sweep";
    pf.crash_pct = 0;
    pf.dbcrash_pct = 0;
    pf.ioerr_pct = 0;
    pf.sigint_pct = 0;
    pf.trunc_pct = 0;
    pf.restat_pct = 0;
    pf.bogus_pct = 0;
    pf.fail_pct = 10;
    pf.max_ops = 6;
    pf.final_clean_invocations = 2;
    let mut sc = gen_scenario(seed ^ 0x5EED_0000_0000, &pf);
    sc.seed = seed;
    sc.profile = "C07sweep".into();
    let invs: Vec<usize> = sc.ops.iter().enumerate().filter(|(_, o)| matches!(o, Op::Invoke(_))).map(|(i, _)| i).collect();
    // the swept invocation is the last one before the two final fault-free ones
    let idx = if invs.len() >= 3 { invs[invs.len() - 3] } else { invs[0] };
    if let Op::Invoke(spec) = &mut sc.ops[idx] {
        spec.faults = Faults::default();
        spec.restat = false;
    }
    (sc, idx)
}

pub fn sweep_point(base: &Scenario, idx: usize, w: usize, k: usize, err: bool) -> Scenario {
    let mut sc = base.clone();
    if let Op::Invoke(spec) = &mut sc.ops[idx] {
        spec.faults.crash_db_write = Some(w);
        spec.faults.crash_db_bytes = k;
        spec.faults.db_err = err;
        spec.faults.orphans_finish = (w + k) % 2 == 0;
    }
    sc
}
