#!/bin/bash
# ./check.sh <Cnn> quick|thorough      run the check of one property
# ./check.sh replay <file> [v]         re-execute a replay file
# exit 0 = property held on everything explored, 1 = VIOLATION, 2 = harness error
set -u
cd "$(dirname "$0")"
export CARGO_NET_OFFLINE=true
build() {
  (cd "$1" && cargo build --release --offline >"../.build-$1.log" 2>&1) || {
    echo "harness error: build of $1 failed (does /repo compile with the verification cfg?)"; tail -30 ".build-$1.log"; exit 2; }
}
case "${1:-}" in
  replay)
    f="${2:?file}"
    if grep -q '"engine": "ttysim"' "$f"; then build ttysim; exec ttysim/target/release/ttysim replay "$f" "${3:-}";
    else build sim; exec sim/target/release/buildsim replay "$f" "${3:-}"; fi ;;
  C20)
    build ttysim; exec ttysim/target/release/ttysim check C20 "${2:-quick}" ;;
  C*)
    build sim; exec sim/target/release/buildsim check "$1" "${2:-quick}" ;;
  *) echo "usage: $0 <Cnn> quick|thorough | replay <file>"; exit 2 ;;
esac
