//! SplitMix64-based PRNG.  Every random decision of the simulator comes from
//! one of these, derived from VERIF_SEED via `sub()` keys, so that deleting
//! one operation while minimising does not perturb the others.

#[derive(Clone, Debug)]
pub struct Rng(pub u64);

impl Rng {
    pub fn new(seed: u64) -> Rng {
        Rng(seed.wrapping_mul(0x9E3779B97F4A7C15) ^ 0xD1B54A32D192ED03)
    }
    pub fn next(&mut self) -> u64 {
        self.0 = self.0.wrapping_add(0x9E3779B97F4A7C15);
        let mut z = self.0;
        z = (z ^ (z >> 30)).wrapping_mul(0xBF58476D1CE4E5B9);
        z = (z ^ (z >> 27)).wrapping_mul(0x94D049BB133111EB);
        z ^ (z >> 31)
    }
    /// uniform in 0..n (0 if n == 0)
    pub fn below(&mut self, n: usize) -> usize {
        if n == 0 {
            0
        } else {
            (self.next() % n as u64) as usize
        }
    }
    /// uniform in lo..=hi
    pub fn range(&mut self, lo: usize, hi: usize) -> usize {
        lo + self.below(hi - lo + 1)
    }
    pub fn pct(&mut self, p: u64) -> bool {
        self.next() % 100 < p
    }
    pub fn permille(&mut self, p: u64) -> bool {
        self.next() % 1000 < p
    }
    pub fn pick<'a, T>(&mut self, v: &'a [T]) -> &'a T {
        &v[self.below(v.len())]
    }
    pub fn shuffle<T>(&mut self, v: &mut [T]) {
        for i in (1..v.len()).rev() {
            let j = self.below(i + 1);
            v.swap(i, j);
        }
    }
    /// independent child stream
    pub fn sub(&self, a: u64, b: u64) -> Rng {
        Rng::new(
            self.0
                ^ a.wrapping_mul(0xA24BAED4963EE407)
                ^ b.wrapping_mul(0x9FB21C651E98DF25).rotate_left(17),
        )
    }
}

pub fn h64<T: std::hash::Hash>(t: &T) -> u64 {
    use std::hash::Hasher;
    // DefaultHasher::new() uses fixed keys: deterministic across processes.
    let mut h = std::collections::hash_map::DefaultHasher::new();
    t.hash(&mut h);
    h.finish()
}
