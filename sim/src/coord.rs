//! Coordinator: forks worker processes, hands out seeds, supervises, aggregates
//! coverage, minimises and re-verifies violations, writes evidence, prints the
//! VIOLATION / KNOWN-FINDING lines.
use crate::exec::{run_scenario, Sandbox};
use crate::minimise;
use crate::scenario::*;
use serde::{Deserialize, Serialize};
use std::collections::{BTreeMap, BTreeSet};
use std::io::{BufRead, BufReader, Write};
use std::process::{Command, Stdio};

pub const VERIF: &str = "/verif";

#[derive(Serialize, Deserialize, Clone, Debug)]
pub struct VLine {
    /// (log write ordinal, bytes persisted, error instead of death) for crash-point sweeps
    #[serde(default)]
    pub sweep: Option<(usize, usize, usize, bool)>,
    pub seed: u64,
    pub op: usize,
    pub prop: String,
    pub code: String,
    pub detail: String,
}

#[derive(Serialize, Deserialize, Default, Debug)]
pub struct WorkerSummary {
    pub runs: u64,
    pub invocations: u64,
    pub commands: u64,
    pub ticks: u64,
    pub stats: BTreeMap<String, u64>,
    pub trace_keys: Vec<u64>,
    pub nontrivial_keys: Vec<u64>,
    pub shapes: Vec<u64>,
    pub state_vectors: Vec<u64>,
    pub hashes: Vec<(u64, u64)>,
    pub other_props: BTreeMap<String, u64>,
    pub samples: Vec<serde_json::Value>,
}

#[derive(Serialize, Deserialize, Clone, Debug)]
pub struct Replay {
    pub engine: String,
    pub property: String,
    pub code: String,
    pub detail: String,
    pub seed: u64,
    pub profile: String,
    #[serde(default)]
    pub scenario: Option<Scenario>,
    #[serde(default)]
    pub spawn: Option<crate::spawn::SpawnScenario>,
}

#[derive(Deserialize, Clone, Debug)]
pub struct Finding {
    pub id: String,
    pub property: String,
    pub code: String,
    pub status: String,
    pub what: String,
    #[serde(default)]
    pub commit: String,
}
#[derive(Deserialize, Clone, Debug, Default)]
pub struct Findings {
    pub findings: Vec<Finding>,
}

pub fn load_findings() -> Findings {
    match std::fs::read_to_string(format!("{}/known_findings.json", VERIF)) {
        Ok(s) => serde_json::from_str(&s).unwrap_or_else(|e| {
            eprintln!("harness error: known_findings.json: {}", e);
            std::process::exit(2);
        }),
        Err(_) => Findings::default(),
    }
}

fn env_u64(k: &str, d: u64) -> u64 {
    std::env::var(k).ok().and_then(|v| v.parse().ok()).unwrap_or(d)
}

pub fn seed_base() -> u64 {
    env_u64("VERIF_SEED", 1).wrapping_mul(10_000_019)
}

/// worker: seeds base+i for i in lo..hi with i % nw == w
/// Pin this worker process to one of the CPUs it may use.  Every simulated
/// invocation runs on a fresh (joined) thread; keeping parent and child on one
/// CPU makes that hand-over a plain context switch.  Affects speed only.
pub fn pin_to_cpu(w: u64) {
    unsafe {
        let mut set: libc::cpu_set_t = std::mem::zeroed();
        if libc::sched_getaffinity(0, std::mem::size_of::<libc::cpu_set_t>(), &mut set) != 0 {
            return;
        }
        let allowed: Vec<usize> = (0..libc::CPU_SETSIZE as usize).filter(|&c| libc::CPU_ISSET(c, &set)).collect();
        if allowed.is_empty() {
            return;
        }
        let c = allowed[(w as usize) % allowed.len()];
        let mut one: libc::cpu_set_t = std::mem::zeroed();
        libc::CPU_SET(c, &mut one);
        libc::sched_setaffinity(0, std::mem::size_of::<libc::cpu_set_t>(), &one);
    }
}

pub fn worker(prop: &str, profile: &str, base: u64, lo: u64, hi: u64, w: u64, nw: u64, hash_every: u64) {
    if profile == "spawn" {
        return spawn_worker(prop, base, lo, hi, w, nw);
    }
    if profile == "C07sweep" {
        return sweep_worker(prop, base, lo, hi, w, nw);
    }
    pin_to_cpu(w);
    let pf = Profile::for_property(profile);
    let known: Vec<(String, String)> = load_findings().findings.iter().filter(|f| f.status == "known").map(|f| (f.property.clone(), f.code.clone())).collect();
    let sb = Sandbox::new(&format!("w{}", w));
    let mut sum = WorkerSummary::default();
    let mut tk: BTreeSet<u64> = BTreeSet::new();
    let mut ntk: BTreeSet<u64> = BTreeSet::new();
    let mut shapes: BTreeSet<u64> = BTreeSet::new();
    let mut svs: BTreeSet<u64> = BTreeSet::new();
    let out = std::io::stdout();
    let mut i = lo + ((w + nw - lo % nw) % nw);
    let mut n = 0u64;
    while i < hi {
        let seed = base.wrapping_add(i);
        if n % 32 == 0 {
            let mut o = out.lock();
            let _ = writeln!(o, "B {}", seed);
            let _ = o.flush();
        }
        n += 1;
        let sc = gen_scenario(seed, &pf);
        let r = run_scenario(&sc, &sb, false);
        sum.runs += 1;
        sum.invocations += r.invocations as u64;
        sum.commands += r.commands as u64;
        sum.ticks += r.ticks as u64;
        for (k, x) in &r.stats {
            *sum.stats.entry(k.clone()).or_default() += x;
        }
        for (k, nt) in &r.trace_keys {
            tk.insert(*k);
            if *nt {
                ntk.insert(*k);
            }
        }
        shapes.insert(r.shape_key);
        for s in &r.state_vectors {
            svs.insert(*s);
        }
        if hash_every > 0 && i % hash_every == 0 {
            sum.hashes.push((seed, r.trace_hash));
        }
        if sum.samples.len() < 2 && r.commands >= 3 && sc.ops.len() <= 6 && sc.project.steps.len() <= 4 {
            sum.samples.push(serde_json::json!({
                "seed": seed,
                "manifest": sc.project.render().files.iter().map(|f| f.1.clone()).collect::<Vec<_>>(),
                "history": r.log.iter().map(|l| l.chars().take(700).collect::<String>()).collect::<Vec<_>>(),
            }));
        }
        // A history in which a listed known finding fires is cut there: what else the oracles
        // say about that invocation would be consequences, not new violations.
        let is_known = |v: &crate::host::Violation| known.iter().any(|(p, c)| p == v.prop && c == &v.code);
        let cut = r.violations.iter().any(|(_, v)| is_known(v));
        for (opi, v) in &r.violations {
            if cut && !is_known(v) {
                continue;
            }
            if v.prop == prop {
                let l = VLine { sweep: None, seed, op: *opi, prop: v.prop.to_string(), code: v.code.clone(), detail: v.detail.clone() };
                let mut o = out.lock();
                let _ = writeln!(o, "V {}", serde_json::to_string(&l).unwrap());
            } else {
                *sum.other_props.entry(format!("{}.{}", v.prop, v.code)).or_default() += 1;
            }
        }
        i += nw;
    }
    sum.trace_keys = tk.into_iter().collect();
    sum.nontrivial_keys = ntk.into_iter().collect();
    sum.shapes = shapes.into_iter().collect();
    sum.state_vectors = svs.into_iter().collect();
    let mut o = out.lock();
    let _ = writeln!(o, "S {}", serde_json::to_string(&sum).unwrap());
    let _ = o.flush();
}

/// C07 crash-point enumeration: every (log write, bytes persisted) pair of one invocation
/// of each sampled history.
fn sweep_worker(prop: &str, base: u64, lo: u64, hi: u64, w: u64, nw: u64) {
    pin_to_cpu(w);
    let sb = Sandbox::new(&format!("x{}", w));
    let mut sum = WorkerSummary::default();
    let mut tk: BTreeSet<u64> = BTreeSet::new();
    let mut ntk: BTreeSet<u64> = BTreeSet::new();
    let out = std::io::stdout();
    let known: Vec<(String, String)> = load_findings().findings.iter().filter(|f| f.status == "known").map(|f| (f.property.clone(), f.code.clone())).collect();
    let mut i = lo + ((w + nw - lo % nw) % nw);
    while i < hi {
        let seed = base.wrapping_add(i);
        {
            let mut o = out.lock();
            let _ = writeln!(o, "B {}", seed);
            let _ = o.flush();
        }
        let (mut bsc, idx0) = gen_sweep_base(seed);
        let r0 = run_scenario(&bsc, &sb, false);
        // sweep the invocation (not one of the two final ones) that appends most to the log
        let ninv = r0.inv_db_writes.len();
        let idx = r0.inv_db_writes[..ninv.saturating_sub(2).max(1)]
            .iter()
            .max_by_key(|(_, w)| w.len())
            .map(|(o, _)| *o)
            .unwrap_or(idx0);
        if let Op::Invoke(spec) = &mut bsc.ops[idx] {
            spec.restat = false;
        }
        sum.runs += 1;
        sum.invocations += r0.invocations as u64;
        sum.commands += r0.commands as u64;
        let writes: Vec<usize> = r0.inv_db_writes.iter().find(|(o, _)| *o == idx).map(|(_, v)| v.clone()).unwrap_or_default();
        let mut report = |r: &crate::exec::RunResult, sweep: Option<(usize, usize, usize, bool)>, sum: &mut WorkerSummary| {
            let is_known = |v: &crate::host::Violation| known.iter().any(|(p, c)| p == v.prop && c == &v.code);
            let cut = r.violations.iter().any(|(_, v)| is_known(v));
            for (opi, v) in &r.violations {
                if cut && !is_known(v) {
                    continue;
                }
                if v.prop == prop {
                    let l = VLine { sweep, seed, op: *opi, prop: v.prop.to_string(), code: v.code.clone(), detail: v.detail.clone() };
                    let mut o = out.lock();
                    let _ = writeln!(o, "V {}", serde_json::to_string(&l).unwrap());
                } else {
                    *sum.other_props.entry(format!("{}.{}", v.prop, v.code)).or_default() += 1;
                }
            }
        };
        report(&r0, None, &mut sum);
        if r0.violations.is_empty() {
            for (wi, len) in writes.iter().enumerate().take(80) {
                let ks: Vec<usize> = if *len <= 400 { (0..=*len).collect() } else { vec![0, 1, 2, 3, len / 2, len - 1, *len] };
                for k in ks {
                    for err in [false, true] {
                        if err && !(k <= 1 || k + 1 >= *len) {
                            continue;
                        }
                        let sc = sweep_point(&bsc, idx, wi + 1, k, err);
                        let r = run_scenario(&sc, &sb, false);
                        sum.runs += 1;
                        sum.invocations += r.invocations as u64;
                        sum.commands += r.commands as u64;
                        sum.ticks += r.ticks as u64;
                        for (kk, x) in &r.stats {
                            *sum.stats.entry(kk.clone()).or_default() += x;
                        }
                        *sum.stats.entry("probe.sweep_points".into()).or_default() += 1;
                        for (key, nt) in &r.trace_keys {
                            tk.insert(*key);
                            if *nt {
                                ntk.insert(*key);
                            }
                        }
                        report(&r, Some((idx, wi + 1, k, err)), &mut sum);
                    }
                }
            }
            *sum.stats.entry("probe.sweep_histories_fully_enumerated".into()).or_default() += 1;
            if sum.samples.is_empty() && writes.len() >= 3 {
                sum.samples.push(serde_json::json!({"seed": seed, "engine": "C07 crash-point sweep", "swept_invocation_op": idx, "log_write_sizes": writes,
                    "history": r0.log.iter().map(|l| l.chars().take(300).collect::<String>()).collect::<Vec<_>>()}));
            }
        }
        i += nw;
    }
    sum.trace_keys = tk.into_iter().collect();
    sum.nontrivial_keys = ntk.into_iter().collect();
    let mut o = out.lock();
    let _ = writeln!(o, "S {}", serde_json::to_string(&sum).unwrap());
    let _ = o.flush();
}

fn spawn_worker(prop: &str, base: u64, lo: u64, hi: u64, w: u64, nw: u64) {
    let sb = Sandbox::new(&format!("s{}", w));
    let mut sum = WorkerSummary::default();
    let out = std::io::stdout();
    let mut i = lo + ((w + nw - lo % nw) % nw);
    while i < hi {
        let seed = base.wrapping_add(i);
        {
            let mut o = out.lock();
            let _ = writeln!(o, "B {}", seed);
            let _ = o.flush();
        }
        let sc = crate::spawn::gen(seed);
        let r = crate::spawn::run(&sc, &sb);
        sum.runs += 1;
        sum.invocations += 1;
        sum.commands += r.commands;
        *sum.stats.entry("probe.real_spawn_invocations".into()).or_default() += 1;
        *sum.stats.entry("probe.real_child_processes".into()).or_default() += r.commands;
        for (k, x) in &r.stats {
            *sum.stats.entry(k.clone()).or_default() += x;
        }
        sum.trace_keys.push(crate::rng::h64(&format!("{:?}", sc.probes.iter().map(|p| &p.cmd).collect::<Vec<_>>())));
        if sc.probes.len() >= 2 {
            sum.nontrivial_keys.push(*sum.trace_keys.last().unwrap());
        }
        if sum.samples.is_empty() && sc.probes.len() >= 2 {
            sum.samples.push(serde_json::json!({"seed": seed, "engine": "real-spawn leg", "manifest": crate::spawn::render(&sc), "j": sc.j}));
        }
        for v in crate::spawn::to_vlines(seed, &r) {
            if v.prop == prop {
                let mut o = out.lock();
                let _ = writeln!(o, "V {}", serde_json::to_string(&v).unwrap());
            }
        }
        i += nw;
    }
    sum.trace_keys.sort();
    sum.trace_keys.dedup();
    sum.nontrivial_keys.sort();
    sum.nontrivial_keys.dedup();
    let mut o = out.lock();
    let _ = writeln!(o, "S {}", serde_json::to_string(&sum).unwrap());
    let _ = o.flush();
}

struct WorkerOut {
    viols: Vec<VLine>,
    summary: Option<WorkerSummary>,
    last_begin: Option<u64>,
    status: std::process::ExitStatus,
}

fn run_workers(prop: &str, profile: &str, base: u64, lo: u64, hi: u64, nw: u64, hash_every: u64, timeout_s: u64) -> Vec<WorkerOut> {
    let exe = std::env::current_exe().unwrap();
    let mut handles = Vec::new();
    for w in 0..nw {
        let mut child = Command::new(&exe)
            .args(["worker", prop, profile, &base.to_string(), &lo.to_string(), &hi.to_string(), &w.to_string(), &nw.to_string(), &hash_every.to_string()])
            .stdin(Stdio::null())
            .stdout(Stdio::piped())
            .stderr(Stdio::inherit())
            .spawn()
            .expect("spawn worker");
        let stdout = child.stdout.take().unwrap();
        let pid = child.id();
        let h = std::thread::spawn(move || {
            let mut viols = Vec::new();
            let mut summary = None;
            let mut last_begin = None;
            for line in BufReader::new(stdout).lines() {
                let line = match line {
                    Ok(l) => l,
                    Err(_) => break,
                };
                if let Some(r) = line.strip_prefix("V ") {
                    if let Ok(v) = serde_json::from_str::<VLine>(r) {
                        viols.push(v);
                    }
                } else if let Some(r) = line.strip_prefix("S ") {
                    summary = serde_json::from_str::<WorkerSummary>(r).ok();
                } else if let Some(r) = line.strip_prefix("B ") {
                    last_begin = r.parse().ok();
                }
            }
            let status = child.wait().unwrap();
            WorkerOut { viols, summary, last_begin, status }
        });
        handles.push((h, pid));
    }
    // watchdog: kill everything after the timeout
    let pids: Vec<u32> = handles.iter().map(|h| h.1).collect();
    let done = std::sync::Arc::new(std::sync::atomic::AtomicBool::new(false));
    let d2 = done.clone();
    let wd = std::thread::spawn(move || {
        let t0 = std::time::Instant::now();
        while !d2.load(std::sync::atomic::Ordering::Relaxed) {
            if t0.elapsed().as_secs() > timeout_s {
                for p in &pids {
                    unsafe { libc::kill(*p as i32, libc::SIGKILL) };
                }
                break;
            }
            std::thread::sleep(std::time::Duration::from_millis(200));
        }
    });
    let all_pids: Vec<u32> = handles.iter().map(|h| h.1).collect();
    let outs: Vec<WorkerOut> = handles.into_iter().map(|(h, _)| h.join().unwrap()).collect();
    done.store(true, std::sync::atomic::Ordering::Relaxed);
    let _ = wd.join();
    // sandboxes of workers that did not get to remove their own (killed, aborted, exit())
    for base in ["/dev/shm".to_string(), std::env::temp_dir().to_string_lossy().into_owned()] {
        if let Ok(rd) = std::fs::read_dir(&base) {
            for e in rd.filter_map(|e| e.ok()) {
                let n = e.file_name().to_string_lossy().into_owned();
                if all_pids.iter().any(|p| n.starts_with(&format!("n2sim-{}-", p))) {
                    let _ = std::fs::remove_dir_all(e.path());
                }
            }
        }
    }
    outs
}

pub fn replay_file(path: &str, verbose: bool) -> i32 {
    let text = match std::fs::read_to_string(path) {
        Ok(t) => t,
        Err(e) => {
            eprintln!("harness error: cannot read {}: {}", path, e);
            return 2;
        }
    };
    let rp: Replay = match serde_json::from_str(&text) {
        Ok(r) => r,
        Err(e) => {
            eprintln!("harness error: {}: {}", path, e);
            return 2;
        }
    };
    let sb = Sandbox::new("replay");
    if let Some(sp) = &rp.spawn {
        let r = crate::spawn::run(sp, &sb);
        let mut hit = false;
        for (c, d) in &r.violations {
            println!("violation: C16 {} {}", c, d);
            if *c == rp.code {
                hit = true;
            }
        }
        if hit {
            println!("VIOLATION property={} replay={}", rp.property, path);
            return 1;
        }
        println!("replay: violation {} {} did not reproduce", rp.property, rp.code);
        return 0;
    }
    let scenario = match &rp.scenario {
        Some(s) => s,
        None => {
            eprintln!("harness error: replay file has no scenario");
            return 2;
        }
    };
    let r = run_scenario(scenario, &sb, verbose);
    let mut hit = false;
    for (opi, v) in &r.violations {
        println!("violation at op {}: {} {} {}", opi, v.prop, v.code, v.detail);
        if v.prop == rp.property && v.code == rp.code {
            hit = true;
        }
    }
    println!("trace_hash {:016x}", r.trace_hash);
    if hit {
        println!("VIOLATION property={} replay={}", rp.property, path);
        1
    } else {
        println!("replay: violation {} {} did not reproduce", rp.property, rp.code);
        0
    }
}

struct Batch {
    profile: String,
    lo: u64,
    hi: u64,
}

pub fn check(prop: &str, tier: &str) -> i32 {
    let t0 = std::time::Instant::now();
    let nw = env_u64("VERIF_WORKERS", 16).max(1);
    let base = seed_base();
    let quick = tier != "thorough";
    let runs = env_u64("VERIF_RUNS", if quick { 120_000 } else { 2_400_000 });
    let budget_s = env_u64("VERIF_BUDGET_S", if quick { 900 } else { 7200 });
    let findings = load_findings();

    // ---- determinism self-check on a sample: same seeds, other processes, other worker count
    let det_n = if quick { 600 } else { 3000 };
    let a = run_workers(prop, prop, base, 0, det_n, nw.min(8), 1, budget_s);
    let b = run_workers(prop, prop, base, 0, det_n, 3, 1, budget_s);
    let collect = |o: &Vec<WorkerOut>| -> BTreeMap<u64, u64> {
        o.iter().filter_map(|w| w.summary.as_ref()).flat_map(|s| s.hashes.iter().cloned()).collect()
    };
    let (ha, hb) = (collect(&a), collect(&b));
    let mut det_bad = Vec::new();
    for (s, h) in &ha {
        if let Some(h2) = hb.get(s) {
            if h2 != h {
                det_bad.push(*s);
            }
        }
    }
    if ha.len() as u64 != det_n || hb.len() as u64 != det_n {
        // a worker died during the sample: the main batch covers the same seeds and reports it
        eprintln!("note: determinism sample incomplete ({} / {} of {})", ha.len(), hb.len(), det_n);
    }
    if !det_bad.is_empty() {
        eprintln!("harness error: non-deterministic replay for seeds {:?}", &det_bad[..det_bad.len().min(10)]);
        return 2;
    }

    // ---- batches
    let mut batches = vec![Batch { profile: prop.to_string(), lo: 0, hi: runs }];
    if prop == "C08" {
        let n = crate::bigshape::KINDS * if quick { 1 } else { 3 };
        batches.push(Batch { profile: "C08big".into(), lo: 0, hi: n });
    }
    if prop == "C07" {
        let n = crate::bigshape::C07BIG_POINTS.len() as u64 * if quick { 1 } else { 2 };
        batches.push(Batch { profile: "C07big".into(), lo: 0, hi: n });
        batches.push(Batch { profile: "C07sweep".into(), lo: 0, hi: env_u64("VERIF_SWEEP_HISTORIES", if quick { 160 } else { 6000 }) });
    }
    if prop == "C16" || prop == "C05" {
        batches.push(Batch { profile: "spawn".into(), lo: 0, hi: env_u64("VERIF_SPAWN_RUNS", if quick { 3000 } else { 60_000 }) });
    }
    if prop == "C01" {
        // "completed successfully" as decided from a real wait status (exit codes, signals)
        batches.push(Batch { profile: "spawn".into(), lo: 0, hi: env_u64("VERIF_SPAWN_RUNS", if quick { 1500 } else { 30_000 }) });
    }
    let mut total = WorkerSummary::default();
    let mut tk: BTreeSet<u64> = BTreeSet::new();
    let mut ntk: BTreeSet<u64> = BTreeSet::new();
    let mut shapes: BTreeSet<u64> = BTreeSet::new();
    let mut svs: BTreeSet<u64> = BTreeSet::new();
    let mut viols: Vec<(String, VLine)> = Vec::new();
    let mut dead: Vec<(String, u64, String)> = Vec::new();
    let mut batch_info = Vec::new();
    for bt in &batches {
        let bw = if bt.profile == "C08big" || bt.profile == "C07big" { nw.min(bt.hi - bt.lo).max(1) } else { nw };
        // big shapes are keyed by the kind number itself, not by VERIF_SEED
        let bbase = if bt.profile == "C07big" {
            0
        } else if bt.profile == "C08big" { env_u64("VERIF_SEED", 1).wrapping_sub(1).wrapping_mul(crate::bigshape::KINDS) } else { base };
        let outs = run_workers(prop, &bt.profile, bbase, bt.lo, bt.hi, bw, 0, budget_s);
        let mut bruns = 0;
        for o in outs {
            viols.extend(o.viols.into_iter().map(|v| (bt.profile.clone(), v)));
            match o.summary {
                Some(s) => {
                    bruns += s.runs;
                    total.runs += s.runs;
                    total.invocations += s.invocations;
                    total.commands += s.commands;
                    total.ticks += s.ticks;
                    for (k, x) in s.stats {
                        *total.stats.entry(k).or_default() += x;
                    }
                    for (k, x) in s.other_props {
                        *total.other_props.entry(k).or_default() += x;
                    }
                    tk.extend(s.trace_keys);
                    ntk.extend(s.nontrivial_keys);
                    shapes.extend(s.shapes);
                    svs.extend(s.state_vectors);
                    if total.samples.len() < 4 {
                        total.samples.extend(s.samples.into_iter().take(1));
                    }
                }
                None => dead.push((bt.profile.clone(), o.last_begin.unwrap_or(0), format!("{:?}", o.status))),
            }
        }
        batch_info.push(serde_json::json!({"profile": bt.profile, "seeds": [bt.lo, bt.hi], "runs": bruns}));
    }
    let mut nviol = 0usize;
    let mut replay_paths = Vec::new();
    let _ = std::fs::create_dir_all(format!("{}/replays", VERIF));
    if !dead.is_empty() {
        // A worker that disappears (abort, stack overflow, kill by the watchdog) while running
        // n2 in-process: find the seed by re-running the batch of 32 seeds it had begun, one
        // process per seed.
        for (profile, begin, status) in &dead {
            let mut culprit = None;
            // the worker that died had begun the batch of 32 scenarios starting at `begin`
            // (stride = number of workers); spawn workers announce every seed
            let (count, stride) = if profile == "spawn" || profile == "C07sweep" { (1, 1) } else { (32, nw) };
            for sd in (0..count).map(|k| begin + k * stride) {
                let st = Command::new(std::env::current_exe().unwrap())
                    .args(["one", profile, &sd.to_string()])
                    .stdout(Stdio::null())
                    .stderr(Stdio::null())
                    .status();
                match st {
                    Ok(s) if s.code().is_some() => {}
                    _ => {
                        culprit = Some(sd);
                        break;
                    }
                }
            }
            match culprit {
                Some(sd) if ["C06", "C12"].contains(&prop) || true => {
                    println!("violation: {} process-death: the process running n2 was killed ({}) in the run of seed {} (profile {})", prop, status, sd, profile);
                    if prop == "C06" {
                        let path = format!("{}/replays/{}-process-death-{}.json", VERIF, prop, sd);
                        let rp = Replay { engine: "buildsim".into(), property: prop.into(), code: "process-death".into(), detail: status.clone(), seed: sd, profile: profile.clone(), scenario: Some(gen_scenario(sd, &Profile::for_property(profile))), spawn: None };
                        std::fs::write(&path, serde_json::to_string_pretty(&rp).unwrap()).unwrap();
                        println!("VIOLATION property={} replay={}", prop, path);
                        replay_paths.push(path);
                        nviol += 1;
                    }
                }
                _ => {
                    eprintln!("harness error: worker(s) died without summary and the death does not reproduce: {:?}", dead);
                    return 2;
                }
            }
        }
        if prop != "C06" {
            eprintln!("harness error: worker(s) died: {:?} (an abort of n2 is judged by the C06 check)", dead);
            return 2;
        }
    }

    // ---- classify violations
    viols.sort_by_key(|v| (v.1.code.clone(), v.1.seed));
    let mut by_code: BTreeMap<String, Vec<(String, VLine)>> = BTreeMap::new();
    for v in viols {
        by_code.entry(v.1.code.clone()).or_default().push(v);
    }
    let mut known_lines = Vec::new();
    for (code, vs) in &by_code {
        if let Some(f) = findings.findings.iter().find(|f| f.status == "known" && f.property == prop && &f.code == code) {
            known_lines.push(format!(
                "KNOWN-FINDING: property={} {} [{}] {} ({} runs hit it, e.g. seed {})",
                prop, code, f.id, f.what, vs.len(), vs[0].1.seed
            ));
            continue;
        }
        // minimise the first occurrence, write the replay file, re-verify in a fresh process
        let (profile, v) = &vs[0];
        let path = format!("{}/replays/{}-{}-{}.json", VERIF, prop, code, v.seed);
        let mut detail = v.detail.clone();
        let rp = if profile == "spawn" {
            let sb = Sandbox::new("min");
            let sc = crate::spawn::gen(v.seed);
            let small = crate::spawn::minimise(&sc, &sb, code);
            Replay { engine: "buildsim-spawn".into(), property: prop.into(), code: code.clone(), detail: detail.clone(), seed: v.seed, profile: profile.clone(), scenario: None, spawn: Some(small) }
        } else {
            let pf = Profile::for_property(profile);
            let sc = if profile == "C07sweep" {
                let (b, _) = gen_sweep_base(v.seed);
                match v.sweep {
                    Some((idx, w, k, err)) => sweep_point(&b, idx, w, k, err),
                    None => b,
                }
            } else {
                gen_scenario(v.seed, &pf)
            };
            let sb = Sandbox::new("min");
            let small = if profile == "C08big" || profile == "C07big" {
                sc
            } else {
                let t = minimise::Target { prop: prop.to_string(), code: code.clone() };
                let small = minimise::minimise(&sc, &sb, &t, 400);
                let r = run_scenario(&small, &sb, false);
                if let Some((_, x)) = r.violations.iter().find(|(_, x)| x.prop == prop && &x.code == code) {
                    detail = x.detail.clone();
                }
                small
            };
            Replay { engine: "buildsim".into(), property: prop.into(), code: code.clone(), detail: detail.clone(), seed: v.seed, profile: profile.clone(), scenario: Some(small), spawn: None }
        };
        std::fs::write(&path, serde_json::to_string_pretty(&rp).unwrap()).unwrap();
        let st = Command::new(std::env::current_exe().unwrap())
            .args(["replay", &path])
            .stdout(Stdio::null())
            .stderr(Stdio::null())
            .status();
        let reproduced = matches!(st, Ok(s) if s.code() == Some(1));
        if !reproduced {
            eprintln!("harness error: replay of {} did not reproduce in a fresh process", path);
            return 2;
        }
        println!("violation: {} {} ({} runs): {}", prop, code, vs.len(), detail);
        println!("VIOLATION property={} replay={}", prop, path);
        replay_paths.push(path);
        nviol += 1;
    }
    for l in &known_lines {
        println!("{}", l);
    }

    // ---- evidence
    let wall = t0.elapsed().as_secs_f64();
    let faults: BTreeMap<String, u64> = total.stats.iter().filter(|(k, _)| k.starts_with("fault.")).map(|(k, v)| (k.clone(), *v)).collect();
    let probes: BTreeMap<String, u64> = total.stats.iter().filter(|(k, _)| k.starts_with("probe.") || k.starts_with("obs.")).map(|(k, v)| (k.clone(), *v)).collect();
    let edits: BTreeMap<String, u64> = total.stats.iter().filter(|(k, _)| k.starts_with("edit.") || k.starts_with("outcome.")).map(|(k, v)| (k.clone(), *v)).collect();
    let ev = serde_json::json!({
        "property_id": prop,
        "tier": if quick { "quick" } else { "thorough" },
        "seed": env_u64("VERIF_SEED", 1),
        "level": level_of(prop),
        "wall_s": wall,
        "violations": nviol,
        "coverage": {
            "evaluations": total.runs,
            "distinct_nontrivial": ntk.len(),
            "rule": "one evaluation = one seeded scenario (random project + history of edits and n2 invocations under a seeded schedule and fault plan); distinct = distinct normalised start/exec/deliver/fault event sequences per graph shape; non-trivial = at least 2 commands executed and (a fault injected or a command failed or a delivery order different from start order)",
            "samples": total.samples,
            "batches": batch_info,
            "simulated_runs": total.runs,
            "n2_invocations": total.invocations,
            "commands_executed": total.commands,
            "runs_per_hour": (total.runs as f64 / wall * 3600.0) as u64,
            "simulated_time": {"logical_clock_ticks": total.ticks, "note": "n2 has no timers on this path; time is a logical clock that stamps every file write"},
            "distinct_event_traces": tk.len(),
            "distinct_graph_shapes": shapes.len(),
            "distinct_build_state_vectors": svs.len(),
            "faults_fired": faults,
            "probes": probes,
            "workload": edits,
            "determinism_sample": {"seeds": det_n, "processes": [nw.min(8), 3], "mismatches": 0},
            "violations_of_other_properties_seen_and_ignored": total.other_props,
            "known_findings_hit": known_lines,
            "replays": replay_paths,
            "components": {
                "real": ["n2::run::run (argument parsing, load, parse, eval, canon, graph, db reader/writer, work loop, pools, hash, task::Runner + run_task, depfile parser, showIncludes filter, progress_dumb, summary)", "kernel tmpfs for every file n2 or a command touches", "process_posix::run_command with real /bin/sh children (real-spawn batch of C01, C05 and C16 only)"],
                "stub": ["subprocess (scripted executor behind process_posix::run_command)", "OS threads (stored closures run by the simulator)", "std::sync::mpsc (per-sender queues interleaved by the simulator)", "main.rs (error print + exit code mapping replicated)", "wall clock (mtimes set from a logical clock)"]
            }
        },
        "assumptions": [
            "commands write only their declared outputs and depfile; nothing edits the tree while n2 runs",
            "a content change comes with an mtime change (mtimes are set explicitly from a logical clock)",
            "phony outputs are not used as dirtying inputs",
            "seeded search: a clean batch is evidence, not proof"
        ]
    });
    let mut ev = ev;
    if prop == "C07" {
        let g = |k: &str| total.stats.get(k).copied().unwrap_or(0);
        ev["coverage"]["crash_point_enumeration"] = serde_json::json!({
            "histories_fully_enumerated": g("probe.sweep_histories_fully_enumerated"),
            "crash_points": g("probe.sweep_points"),
            "what": "for each sampled fault-free history, the invocation that appends most to the log is re-run once per (log write, number of bytes of that write that persist, 0..=len) with process death, and at the boundary values with ENOSPC; exhaustive within each history, sampled across histories",
            "big_record_tear_points": crate::bigshape::C07BIG_POINTS.to_vec(),
        });
    }
    let _ = std::fs::create_dir_all(format!("{}/evidence", VERIF));
    std::fs::write(format!("{}/evidence/{}.json", VERIF, prop), serde_json::to_string_pretty(&ev).unwrap()).unwrap();
    println!(
        "{} {}: {} runs, {} invocations, {} commands, {} distinct traces ({} non-trivial), {} violations, {:.1}s",
        prop, tier, total.runs, total.invocations, total.commands, tk.len(), ntk.len(), nviol, wall
    );
    if nviol > 0 {
        1
    } else {
        0
    }
}

pub fn level_of(prop: &str) -> &'static str {
    match prop {
        "C07" => "fault_enumeration",
        _ => "exploration",
    }
}
