#!/bin/bash
# Sensitivity batch 1: hand-written mutants from DESIGN.md section 5.
cd /verif
M=tools/mutant.py
$M recheck-first-done work.rs 'if self.build_states.get(id) != BuildState::Done {
                        // println!("  {:?} {} not done, it'"'"'s {:?}", id, file.name, self.build_states.get(id));
                        return false;
                    }' 'if self.build_states.get(id) == BuildState::Done {
                        return true;
                    }' C01
$M dependents-nofilter work.rs 'if self.build_states.get(id) != BuildState::Want {
                    continue;
                }
                dependents.insert(id);' 'dependents.insert(id);' C01 C06
$M hash-no-discovered hash.rs 'manifest.write_files("discovered", files, file_state, build.discovered_ins());' '' C02 C09
$M hash-no-cmdline hash.rs 'manifest.write_cmdline(build.cmdline.as_deref().unwrap_or(""));' 'manifest.write_cmdline("");' C02
$M hash-no-rsp hash.rs 'if let Some(rspfile) = &build.rspfile {
        manifest.write_rsp(rspfile);
    }' '' C02
$M missing-out-clean work.rs 'if let Some(missing) = Self::stat_all_outputs(&graph, &mut *file_state, build)? {
            return Ok(Some(missing));
        }' 'Self::stat_all_outputs(&graph, &mut *file_state, build)?;' C02
$M pool-le work.rs 'if pool.depth == 0 || pool.running < pool.depth {' 'if pool.depth == 0 || pool.running <= pool.depth {' C04
$M j-le task.rs 'self.running < self.parallelism' 'self.running <= self.parallelism' C04
$M k-not-decremented work.rs '*failures_left -= 1;' '' C05
$M success-always work.rs 'let success = tasks_failed == 0 && !signal::was_interrupted();' 'let success = true;' C05
$M interrupted-as-failure work.rs 'process::Termination::Interrupted => {
                    // If the task was interrupted bail immediately.
                    return Ok(false);
                }' 'process::Termination::Interrupted => {
                    tasks_failed += 1;
                    self.build_states.set(task.buildid, build, BuildState::Failed);
                }' C05
$M fail-ready-dependents work.rs 'self.build_states
                        .set(task.buildid, build, BuildState::Failed);' 'self.ready_dependents(task.buildid);' C05 C01
$M no-reload run.rs 'if work.tasks_run == 0 {' 'if true {' C17
$M tasks-run-on-failure work.rs 'tasks_failed += 1;' 'tasks_failed += 1; self.tasks_run += 1;' C19
$M phony-counted work.rs 'let skip_ui_count = build.cmdline.is_none();' 'let skip_ui_count = false;' C19
$M want-every-despite-default run.rs '} else if !state.default.is_empty() {' '} else if false {' C18
$M unknown-target-skipped run.rs 'return Err(anyhow::anyhow!("unknown path requested: {:?}", name));' 'continue;' C18
$M validation-not-wanted work.rs 'for &id in build.validation_ins() {' 'for &id in build.validation_ins().iter().take(0) {' C18 C06
