//! Shrink a failing scenario while the same oracle (property + code) fires.
use crate::exec::{run_scenario, Sandbox};
use crate::project::*;
use crate::scenario::*;

pub struct Target {
    pub prop: String,
    pub code: String,
}

fn fails(sc: &Scenario, sb: &Sandbox, t: &Target, budget: &mut usize) -> bool {
    if *budget == 0 {
        return false;
    }
    *budget -= 1;
    let r = run_scenario(sc, sb, false);
    r.violations.iter().any(|(_, v)| v.prop == t.prop && v.code == t.code)
}

fn strip_step(p: &mut Project, si: usize) -> bool {
    if p.steps[si].removed || p.steps[si].generator || p.live_steps().count() <= 1 {
        return false;
    }
    let outs = p.steps[si].outs.clone();
    p.steps[si].removed = true;
    for s in p.steps.iter_mut() {
        for l in [&mut s.exp, &mut s.imp, &mut s.oo, &mut s.val] {
            l.retain(|f| !outs.contains(f));
        }
    }
    p.defaults.retain(|f| !outs.contains(f));
    for s in p.srcs.iter_mut() {
        s.incs.retain(|f| !outs.contains(f));
    }
    true
}

pub fn minimise(sc0: &Scenario, sb: &Sandbox, t: &Target, mut budget: usize) -> Scenario {
    let mut sc = sc0.clone();
    // 1. cut after the violating operation
    {
        let r = run_scenario(&sc, sb, false);
        if let Some((opi, _)) = r.violations.iter().find(|(_, v)| v.prop == t.prop && v.code == t.code) {
            sc.ops.truncate(opi + 1);
        } else {
            return sc;
        }
    }
    let mut progress = true;
    let mut passes = 0;
    while progress && passes < 4 && budget > 0 {
        progress = false;
        passes += 1;
        // 2. drop operations
        let mut i = sc.ops.len();
        while i > 0 {
            i -= 1;
            if sc.ops.len() <= 1 {
                break;
            }
            let mut c = sc.clone();
            c.ops.remove(i);
            if !c.ops.iter().any(|o| matches!(o, Op::Invoke(_))) {
                continue;
            }
            if fails(&c, sb, t, &mut budget) {
                sc = c;
                progress = true;
            }
        }
        // 3. simplify invocations
        for i in 0..sc.ops.len() {
            let spec = match &sc.ops[i] {
                Op::Invoke(s) => s.clone(),
                _ => continue,
            };
            let mut cands: Vec<InvokeSpec> = Vec::new();
            let d = Faults::default();
            macro_rules! cand {
                ($f:expr) => {{
                    let mut s = spec.clone();
                    #[allow(clippy::redundant_closure_call)]
                    ($f)(&mut s);
                    if s != spec {
                        cands.push(s);
                    }
                }};
            }
            cand!(|s: &mut InvokeSpec| s.faults = d.clone());
            cand!(|s: &mut InvokeSpec| s.faults.fail.clear());
            cand!(|s: &mut InvokeSpec| s.faults.interrupt.clear());
            cand!(|s: &mut InvokeSpec| s.faults.spawn_err.clear());
            cand!(|s: &mut InvokeSpec| s.faults.bad_depfile.clear());
            cand!(|s: &mut InvokeSpec| s.faults.crash_at = None);
            cand!(|s: &mut InvokeSpec| s.faults.crash_db_write = None);
            cand!(|s: &mut InvokeSpec| s.faults.io_err_at = None);
            cand!(|s: &mut InvokeSpec| s.faults.sigint_at = None);
            cand!(|s: &mut InvokeSpec| s.faults.short_writes = false);
            cand!(|s: &mut InvokeSpec| s.faults.fail_after_write = false);
            cand!(|s: &mut InvokeSpec| s.policy = 4);
            cand!(|s: &mut InvokeSpec| s.policy = 0);
            cand!(|s: &mut InvokeSpec| s.targets.clear());
            cand!(|s: &mut InvokeSpec| s.k = None);
            cand!(|s: &mut InvokeSpec| s.j = 1);
            cand!(|s: &mut InvokeSpec| s.j = 2);
            cand!(|s: &mut InvokeSpec| {
                s.verbose = false;
                s.explain = false;
                s.use_c = false;
                s.explicit_f = false;
                s.argv0_ninja = false;
                s.f_spelling = 0;
            });
            if spec.faults.fail.len() > 1 {
                for k in 0..spec.faults.fail.len() {
                    cand!(|s: &mut InvokeSpec| {
                        s.faults.fail.remove(k);
                    });
                }
            }
            if spec.targets.len() > 1 {
                for k in 0..spec.targets.len() {
                    cand!(|s: &mut InvokeSpec| {
                        s.targets.remove(k);
                    });
                }
            }
            for c in cands {
                let mut n = sc.clone();
                let cur = match &n.ops[i] {
                    Op::Invoke(s) => s.clone(),
                    _ => unreachable!(),
                };
                // re-apply the same kind of simplification on the current spec is not
                // possible generically; accept the candidate only if it simplifies `cur` too
                if c == cur {
                    continue;
                }
                n.ops[i] = Op::Invoke(c);
                if fails(&n, sb, t, &mut budget) {
                    sc = n;
                    progress = true;
                    break;
                }
            }
        }
        // 4. shrink the project (only without generator variants)
        if sc.variants.is_empty() {
            for si in (0..sc.project.steps.len()).rev() {
                let mut c = sc.clone();
                if strip_step(&mut c.project, si) && fails(&c, sb, t, &mut budget) {
                    sc = c;
                    progress = true;
                }
            }
            let simpl: Vec<Box<dyn Fn(&mut Project)>> = vec![
                Box::new(|p| p.spell = 0),
                Box::new(|p| p.builddir = None),
                Box::new(|p| p.manifest = "build.ninja".into()),
                Box::new(|p| p.defaults.clear()),
                Box::new(|p| {
                    for s in p.steps.iter_mut() {
                        s.pool = None;
                    }
                    p.pools.clear()
                }),
                Box::new(|p| {
                    for s in p.steps.iter_mut() {
                        s.decor.clear();
                        s.hide_success = false;
                    }
                }),
                Box::new(|p| {
                    for s in p.steps.iter_mut() {
                        s.rsp = None;
                    }
                }),
                Box::new(|p| {
                    for s in p.steps.iter_mut() {
                        s.depmode = 0;
                    }
                }),
                Box::new(|p| {
                    for s in p.steps.iter_mut() {
                        s.restat = false;
                    }
                }),
                Box::new(|p| {
                    for s in p.steps.iter_mut() {
                        s.val.clear();
                    }
                }),
                Box::new(|p| {
                    for s in p.steps.iter_mut() {
                        s.oo.clear();
                    }
                }),
                Box::new(|p| {
                    for s in p.srcs.iter_mut() {
                        s.incs.clear();
                    }
                }),
            ];
            for f in &simpl {
                let mut c = sc.clone();
                f(&mut c.project);
                if c.project != sc.project && fails(&c, sb, t, &mut budget) {
                    sc = c;
                    progress = true;
                }
            }
            // per-step input lists
            for si in 0..sc.project.steps.len() {
                for which in 0..4 {
                    let mut c = sc.clone();
                    let s = &mut c.project.steps[si];
                    let l = match which {
                        0 => &mut s.exp,
                        1 => &mut s.imp,
                        2 => &mut s.oo,
                        _ => &mut s.val,
                    };
                    if l.is_empty() {
                        continue;
                    }
                    l.pop();
                    if fails(&c, sb, t, &mut budget) {
                        sc = c;
                        progress = true;
                    }
                }
            }
        }
    }
    sc
}
