//! Engine E2 `ttysim`: the whole of n2::run::run() — main loop, one thread per
//! running command, the fancy-progress debounce thread — under a shuttle
//! scheduler, with a simulated clock and a real pty whose width the simulator
//! changes.  Decides C20 (status rendering never breaks the build).
#[path = "../../sim/src/rng.rs"]
mod rng;

use n2::verif::{tty, Termination};
use rng::{h64, Rng};
use serde::{Deserialize, Serialize};
use std::collections::{BTreeMap, BTreeSet};
use std::io::{BufRead, BufReader, Write};
use std::process::{Command, Stdio};
use std::sync::Mutex;

const VERIF: &str = "/verif";

// ------------------------------------------------------------------ scenario

#[derive(Clone, Debug, Serialize, Deserialize, PartialEq)]
pub struct TStep {
    pub id: usize,
    pub desc: String,
    /// ids of steps this one takes as inputs
    pub after: Vec<usize>,
    /// output chunks (raw bytes as lossy strings would lose information: keep Vec<u8>)
    pub chunks: Vec<Vec<u8>>,
    /// simulated seconds the command takes, spent between chunks
    pub secs: Vec<u64>,
    pub fail: bool,
    pub pool: bool,
    /// set the terminal width to this while the command runs
    pub resize: Option<u16>,
    pub hide_progress: bool,
}

#[derive(Clone, Debug, Serialize, Deserialize, PartialEq)]
pub struct TScenario {
    pub seed: u64,
    pub cols: u16,
    pub steps: Vec<TStep>,
    pub j: usize,
    pub k: Option<usize>,
    pub verbose: bool,
    /// 0 random scheduler, 1 PCT
    pub sched: u8,
    pub sched_seed: u64,
    pub timeout_budget: usize,
}

/// strings whose byte length straddles the truncation points around `cols`
fn boundary_text(r: &mut Rng, cols: usize) -> String {
    let cols = cols.max(10);
    let alphabet: [&str; 8] = ["a", "b", "\u{fc}", "\u{2501}", "\u{1F600}", " ", "\u{e9}", "x"];
    let range = if r.pct(6) { 1 } else { 10 };
    let target = match r.below(range) {
        // lengths around powers of two: fixed-size message buffers / caps
        0 if r.pct(50) => [255usize, 256, 511, 512, 1023, 1024, 1025, 2047, 2048, 4095, 4096][r.below(11)] + r.below(9),
        0 => r.below(8),
        1 => cols + r.below(40),
        2 => cols * 3,
        _ => (cols + 4).saturating_sub(r.below(20)),
    };
    let mut s = String::new();
    let multi = r.pct(70);
    while s.len() < target {
        let c = if multi { alphabet[r.below(8)] } else { alphabet[r.below(2)] };
        s.push_str(c);
    }
    s
}

pub fn gen(seed: u64) -> TScenario {
    let root = Rng::new(seed);
    let mut r = root.sub(20, 20);
    let cols: u16 = match r.below(12) {
        0 => 0,
        1 => 5,
        2 => 9,
        3 => 10,
        4 => 11,
        5 => 300,
        6 => 80,
        _ => 10 + r.below(60) as u16,
    };
    let big = r.pct(4);
    let n = if big { 80 + r.below(30) } else { 1 + r.below(10) };
    let shape = r.below(4);
    let mut steps = Vec::new();
    for id in 0..n {
        let mut after = vec![];
        if big {
            // many quick steps, a slow one that needs them all, a last one after it
            if id == n - 2 {
                after = (0..n - 2).collect();
            } else if id == n - 1 {
                after = vec![n - 2];
            }
        } else {
            match shape {
                0 => {}
                1 => {
                    if id > 0 {
                        after.push(id - 1);
                    }
                }
                2 => {
                    if id == n - 1 {
                        after = (0..id).collect();
                    }
                }
                _ => {
                    for a in 0..id {
                        if r.pct(25) {
                            after.push(a);
                        }
                    }
                }
            }
        }
        let mut chunks: Vec<Vec<u8>> = Vec::new();
        let mut secs = Vec::new();
        let nch = if big && id != n - 2 { r.below(2) } else { r.below(4) };
        for _ in 0..nch {
            let mut c: Vec<u8> = match r.below(6) {
                0 => vec![0xff, 0xfe, b'a', 0xc3],
                1 => Vec::new(),
                _ => boundary_text(&mut r, cols as usize).into_bytes(),
            };
            match r.below(4) {
                0 => {}
                1 => c.extend_from_slice(b"\r\n"),
                _ => c.push(b'\n'),
            }
            if c.is_empty() {
                c.push(b'\n');
            }
            chunks.push(c);
            secs.push([0u64, 0, 1, 2, 3, 9, 10, 99, 100, 1000, 1_000_000][r.below(11)]);
        }
        if big && id == n - 2 {
            chunks = vec![b"slow\n".to_vec(), b"still slow\n".to_vec(), b"done\n".to_vec()];
            secs = vec![3, 5, 100];
        }
        if !chunks.is_empty() && r.pct(70) {
            // a tag no description or other output can contain: must reach the terminal exactly once
            chunks.insert(0, format!("#s{}#\n", id).into_bytes());
            secs.insert(0, 0);
        }
        steps.push(TStep {
            id,
            desc: if r.pct(15) { String::new() } else { boundary_text(&mut r, cols as usize) },
            after,
            chunks,
            secs,
            fail: !big && r.pct(6),
            pool: r.pct(10),
            resize: if r.pct(8) { Some([0u16, 9, 10, 12, 40, 200][r.below(6)]) } else { None },
            hide_progress: r.pct(5),
        });
    }
    TScenario {
        seed,
        cols,
        steps,
        j: if big { 8 } else { 1 + r.below(8) },
        k: if r.pct(40) { Some(1 + r.below(3)) } else { None },
        verbose: r.pct(10),
        sched: if r.pct(30) { 1 } else { 0 },
        sched_seed: r.next(),
        timeout_budget: r.below(12),
    }
}

fn esc(s: &str) -> String {
    s.replace('$', "$$")
}

fn render(sc: &TScenario) -> String {
    let mut m = String::from("pool pp\n  depth = 1\n");
    for s in &sc.steps {
        m.push_str(&format!("rule r{}\n  command = sim s{} {}\n", s.id, s.id, esc(&s.desc)));
        // a description may not be empty in the grammar's eyes: bind only non-empty ones
        let d = s.desc.trim_end_matches(' ');
        if !d.is_empty() && !s.desc.starts_with(' ') {
            m.push_str(&format!("  description = {}\n", esc(d)));
        }
        if s.hide_progress {
            m.push_str("  hide_progress = 1\n");
        }
        let ins: Vec<String> = s.after.iter().map(|a| format!("o{}", a)).collect();
        m.push_str(&format!("build o{}: r{} {}\n", s.id, s.id, ins.join(" ")));
        if s.pool {
            m.push_str("  pool = pp\n");
        }
    }
    m
}

// ------------------------------------------------------------------ pty + simulated process

static PLAN: Mutex<Option<TScenario>> = Mutex::new(None);
static EXECUTED: Mutex<Vec<usize>> = Mutex::new(Vec::new());
/// (bytes captured so far when the width was set, width)
static WIDTHS: Mutex<Vec<(usize, u16)>> = Mutex::new(Vec::new());
/// (bytes captured so far, step id, 0 = command entered / 1 = command about to return /
/// 2 = display told "started" / 3 = display about to be told "finished")
static EVENTS: Mutex<Vec<(usize, usize, u8)>> = Mutex::new(Vec::new());
static MASTER: std::sync::atomic::AtomicI32 = std::sync::atomic::AtomicI32::new(-1);

fn set_cols(cols: u16) {
    let ws = libc::winsize { ws_row: 24, ws_col: cols, ws_xpixel: 0, ws_ypixel: 0 };
    unsafe {
        libc::ioctl(MASTER.load(std::sync::atomic::Ordering::SeqCst), libc::TIOCSWINSZ, &ws);
    }
    let at = tty::CAPTURED.lock().map(|c| c.len()).unwrap_or(0);
    WIDTHS.lock().unwrap().push((at, cols));
}

/// the display has just been told that a command started (kind 2) / is about to be told
/// that it finished (kind 3)
fn task_event(cmdline: &str, kind: u8) {
    let id: usize = cmdline.split(' ').nth(1).and_then(|t| t.strip_prefix('s')).and_then(|t| t.parse().ok()).unwrap_or(usize::MAX);
    let at = tty::CAPTURED.lock().map(|c| c.len()).unwrap_or(0);
    EVENTS.lock().unwrap().push((at, id, 2 + kind));
}

fn sim_cmd(cmdline: &str, out: &mut dyn FnMut(&[u8])) -> anyhow::Result<Termination> {
    let id: usize = cmdline.split(' ').nth(1).and_then(|t| t.strip_prefix('s')).and_then(|t| t.parse().ok()).unwrap_or(usize::MAX);
    let step = {
        let p = PLAN.lock().unwrap();
        p.as_ref().and_then(|sc| sc.steps.iter().find(|s| s.id == id).cloned())
    };
    let step = match step {
        Some(s) => s,
        None => return Ok(Termination::Failure),
    };
    EXECUTED.lock().unwrap().push(id);
    let mark = |kind: u8| {
        let at = tty::CAPTURED.lock().map(|c| c.len()).unwrap_or(0);
        EVENTS.lock().unwrap().push((at, id, kind));
    };
    mark(0);
    if let Some(w) = step.resize {
        set_cols(w);
    }
    shuttle::thread::sleep(std::time::Duration::from_secs(0));
    for (c, s) in step.chunks.iter().zip(step.secs.iter()) {
        out(c);
        tty::advance(std::time::Duration::from_secs(*s));
        shuttle::thread::sleep(std::time::Duration::from_secs(0));
    }
    if step.fail {
        mark(1);
        return Ok(Termination::Failure);
    }
    std::fs::write(format!("o{}", id), b"x")?;
    mark(1);
    Ok(Termination::Success)
}

fn setup_pty() {
    let (mut master, mut slave) = (0, 0);
    unsafe {
        assert_eq!(libc::openpty(&mut master, &mut slave, std::ptr::null_mut(), std::ptr::null(), std::ptr::null()), 0);
        let fl = libc::fcntl(master, libc::F_GETFL);
        libc::fcntl(master, libc::F_SETFL, fl | libc::O_NONBLOCK);
        libc::dup2(slave, 0);
        libc::dup2(slave, 1);
    }
    MASTER.store(master, std::sync::atomic::Ordering::SeqCst);
}

fn drain_pty() -> Vec<u8> {
    let mut v = Vec::new();
    let mut b = [0u8; 4096];
    loop {
        let n = unsafe { libc::read(MASTER.load(std::sync::atomic::Ordering::SeqCst), b.as_mut_ptr() as *mut _, 4096) };
        if n <= 0 {
            break;
        }
        v.extend_from_slice(&b[..n as usize]);
    }
    v
}

// ------------------------------------------------------------------ execution + oracles

thread_local! {
    static LAST_PANIC: std::cell::RefCell<String> = std::cell::RefCell::new(String::new());
}
static PANICS: Mutex<Vec<String>> = Mutex::new(Vec::new());

pub struct TResult {
    pub violations: Vec<(String, String)>,
    pub frames: usize,
    pub executed: usize,
    pub stats: BTreeMap<String, u64>,
    pub trace_key: u64,
    pub sim_secs: u64,
    pub frames_text: Vec<u8>,
}

fn bump(st: &mut BTreeMap<String, u64>, k: &str) {
    *st.entry(k.to_string()).or_default() += 1;
}

static RESULT: Mutex<Option<Result<i32, String>>> = Mutex::new(None);

fn prepare(sc: &TScenario, dir: &str) {
    let _ = std::env::set_current_dir("/");
    let _ = std::fs::remove_dir_all(dir);
    std::fs::create_dir_all(dir).unwrap();
    std::env::set_current_dir(dir).unwrap();
    std::fs::write("build.ninja", render(sc)).unwrap();
    *PLAN.lock().unwrap() = Some(sc.clone());
    EXECUTED.lock().unwrap().clear();
    EVENTS.lock().unwrap().clear();
    WIDTHS.lock().unwrap().clear();
    PANICS.lock().unwrap().clear();
    tty::CAPTURED.lock().unwrap().clear();
    set_cols(sc.cols);
    tty::CLOCK_NS.store(1_000_000_000, std::sync::atomic::Ordering::SeqCst);
    tty::TIMEOUT_BUDGET.store(sc.timeout_budget, std::sync::atomic::Ordering::SeqCst);
    *n2::verif::SHUTTLE_CMD.lock().unwrap() = Some(sim_cmd);
    *n2::verif::SHUTTLE_TASK_EVENT.lock().unwrap() = Some(task_event);
    let mut args: Vec<String> = vec!["-j".into(), sc.j.to_string()];
    if let Some(k) = sc.k {
        args.extend(["-k".to_string(), k.to_string()]);
    }
    if sc.verbose {
        args.push("-v".into());
    }
    *n2::verif::SHUTTLE_ARGS.lock().unwrap() = args;
    *RESULT.lock().unwrap() = None;
}

fn body() {
    let r = n2::run::run();
    *RESULT.lock().unwrap() = Some(r.map_err(|e| e.to_string()));
}

fn shuttle_cfg() -> shuttle::Config {
    let mut cfg = shuttle::Config::new();
    cfg.stack_size = 1 << 20;
    cfg.failure_persistence = shuttle::FailurePersistence::None;
    cfg.max_steps = shuttle::MaxSteps::FailAfter(2_000_000);
    cfg
}

fn inner_scheduler(sc: &TScenario) -> Box<dyn shuttle::scheduler::Scheduler> {
    if sc.sched == 1 {
        Box::new(shuttle::scheduler::PctScheduler::new_from_seed(sc.sched_seed, 3, 1))
    } else {
        Box::new(shuttle::scheduler::RandomScheduler::new_from_seed(sc.sched_seed, 1))
    }
}

/// one scenario, one shuttle execution (used by replay / minimise / dev)
pub fn run(sc: &TScenario, dir: &str) -> TResult {
    prepare(sc, dir);
    let sched = OneShot { inner: Some(inner_scheduler(sc)), used: false };
    let res = std::panic::catch_unwind(std::panic::AssertUnwindSafe(move || {
        shuttle::Runner::new(sched, shuttle_cfg()).run(body);
    }));
    judge(sc, res.is_err())
}

struct OneShot {
    inner: Option<Box<dyn shuttle::scheduler::Scheduler>>,
    used: bool,
}
impl shuttle::scheduler::Scheduler for OneShot {
    fn new_execution(&mut self) -> Option<shuttle::scheduler::Schedule> {
        if self.used {
            return None;
        }
        self.used = true;
        self.inner.as_mut().unwrap().new_execution()
    }
    fn next_task(&mut self, r: &[&shuttle::scheduler::Task], c: Option<shuttle::scheduler::TaskId>, y: bool) -> Option<shuttle::scheduler::TaskId> {
        self.inner.as_mut().unwrap().next_task(r, c, y)
    }
    fn next_u64(&mut self) -> u64 {
        self.inner.as_mut().unwrap().next_u64()
    }
}

/// Batch mode: one Runner (one pool of thread stacks) for many scenarios; every execution
/// gets a fresh scheduler seeded from its own scenario, so each is replayable alone.
struct Batch {
    inner: Option<Box<dyn shuttle::scheduler::Scheduler>>,
    seeds: std::sync::Arc<Mutex<std::collections::VecDeque<u64>>>,
    current: std::sync::Arc<Mutex<Option<TScenario>>>,
    done: std::sync::Arc<Mutex<Vec<(TScenario, TResult)>>>,
    dir: String,
}
impl shuttle::scheduler::Scheduler for Batch {
    fn new_execution(&mut self) -> Option<shuttle::scheduler::Schedule> {
        if let Some(prev) = self.current.lock().unwrap().take() {
            let r = judge(&prev, false);
            self.done.lock().unwrap().push((prev, r));
        }
        let seed = self.seeds.lock().unwrap().pop_front()?;
        let sc = gen(seed);
        prepare(&sc, &self.dir);
        let mut inner = inner_scheduler(&sc);
        let s = inner.new_execution();
        self.inner = Some(inner);
        *self.current.lock().unwrap() = Some(sc);
        s
    }
    fn next_task(&mut self, r: &[&shuttle::scheduler::Task], c: Option<shuttle::scheduler::TaskId>, y: bool) -> Option<shuttle::scheduler::TaskId> {
        self.inner.as_mut().unwrap().next_task(r, c, y)
    }
    fn next_u64(&mut self) -> u64 {
        self.inner.as_mut().unwrap().next_u64()
    }
}

/// run the scenarios of `seeds`; calls `sink` for each finished one
pub fn run_batch(seeds: Vec<u64>, dir: &str, sink: &mut dyn FnMut(&TScenario, &TResult)) {
    let seeds = std::sync::Arc::new(Mutex::new(seeds.into_iter().collect::<std::collections::VecDeque<u64>>()));
    let current = std::sync::Arc::new(Mutex::new(None));
    let done = std::sync::Arc::new(Mutex::new(Vec::new()));
    loop {
        let b = Batch { inner: None, seeds: seeds.clone(), current: current.clone(), done: done.clone(), dir: dir.to_string() };
        let res = std::panic::catch_unwind(std::panic::AssertUnwindSafe(move || {
            shuttle::Runner::new(b, shuttle_cfg()).run(body);
        }));
        if res.is_err() {
            // the execution of `current` panicked: judge it and drop the rest of the batch
            if let Some(prev) = current.lock().unwrap().take() {
                let r = judge(&prev, true);
                done.lock().unwrap().push((prev, r));
            }
            seeds.lock().unwrap().clear();
        }
        for (sc, r) in done.lock().unwrap().drain(..) {
            sink(&sc, &r);
        }
        if res.is_ok() || seeds.lock().unwrap().is_empty() {
            break;
        }
    }
}

fn judge(sc: &TScenario, panicked: bool) -> TResult {
    let mut v: Vec<(String, String)> = Vec::new();
    let mut stats = BTreeMap::new();
    let res: Result<(), ()> = if panicked { Err(()) } else { Ok(()) };
    let _ = std::io::stdout().flush();
    let pty_out = drain_pty();
    let cap = tty::CAPTURED.lock().unwrap().clone();
    let executed = EXECUTED.lock().unwrap().clone();
    let widths = WIDTHS.lock().unwrap().clone();
    let events = EVENTS.lock().unwrap().clone();
    let panics = PANICS.lock().unwrap().clone();
    if res.is_err() || !panics.is_empty() {
        let msg = panics.first().cloned().unwrap_or_else(|| "panic (no message captured)".into());
        if msg.contains("exceeded max_steps") || msg.contains("deadlock") {
            v.push(("hang".into(), format!("the build does not finish: {}", msg)));
        } else {
            v.push(("panic".into(), format!("a thread of n2 panicked while rendering / building: {}", msg)));
        }
    }
    let result = RESULT.lock().unwrap().clone();
    // ---- outcome is what the same scenario gives without a tty: determined by the plan alone
    if v.is_empty() {
        let fails: Vec<usize> = sc.steps.iter().filter(|s| s.fail).map(|s| s.id).collect();
        match &result {
            None => v.push(("no-result".into(), "run() did not return".into())),
            Some(Err(e)) => v.push(("build-error".into(), format!("rendering altered the build: run() returned error {:?}", e))),
            Some(Ok(code)) => {
                if fails.is_empty() {
                    if *code != 0 {
                        v.push(("exit-status".into(), format!("no command fails but exit status is {}", code)));
                    }
                    let ex: BTreeSet<usize> = executed.iter().cloned().collect();
                    if ex.len() != sc.steps.len() || executed.len() != sc.steps.len() {
                        v.push(("executed-set".into(), format!("{} of {} commands executed ({} executions)", ex.len(), sc.steps.len(), executed.len())));
                    }
                    for s in &sc.steps {
                        if !std::path::Path::new(&format!("o{}", s.id)).exists() {
                            v.push(("output-missing".into(), format!("o{} missing after a successful build", s.id)));
                            break;
                        }
                    }
                    if !String::from_utf8_lossy(&pty_out).contains("now up to date") {
                        v.push(("summary".into(), format!("summary line missing on the terminal: {:?}", String::from_utf8_lossy(&pty_out))));
                    }
                } else if *code == 0 {
                    // a failing command is only reached if its inputs succeed
                    let reached = fails.iter().any(|f| executed.contains(f));
                    if reached {
                        v.push(("exit-status".into(), "a command failed but exit status is 0".into()));
                    }
                }
            }
        }
    }
    // ---- frames
    let resized = widths.len() > 1;
    let eff = |w: u16| -> usize {
        if w < 10 {
            80
        } else {
            w as usize
        }
    };
    // the width in effect when the frame starting at stream offset `at` was rendered
    // (resizes happen inside simulated commands, i.e. between frames)
    let width_at = |at: usize| -> usize { widths.iter().filter(|(p, _)| *p <= at).last().map(|(_, w)| eff(*w)).unwrap_or(80) };
    let mut nframes = 0;
    let mut pos = 0;
    let mut shapes: Vec<(usize, usize)> = Vec::new();
    // what was printed outside the overprinted status frames
    let mut persistent: Vec<u8> = Vec::new();
    // number of "failed: ..." lines that had been printed before the previous frame: by the
    // time of the next frame the counts handed to the display must include them
    // "failed: ..." lines seen so far, and how many of them must be in the counts by now:
    // once the finish of a *later* task is on the terminal, the main loop has been through
    // its top (progress.update) after every earlier failure
    let mut failed_lines_now = 0usize;
    let mut required_failed = 0usize;
    let mut last_done: Option<(usize, usize)> = None;
    while let Some(rel) = find_cursor_up(&cap[pos..]) {
        let (start, end, n) = (pos, pos + rel.0, rel.2);
        let chunk = &cap[start..end];
        pos += rel.1;
        nframes += 1;
        // the n lines before the cursor-up sequence
        if !chunk.ends_with(b"\n") {
            v.push(("frame-grammar".into(), "cursor-up sequence not at the start of a line".into()));
            break;
        }
        let body = &chunk[..chunk.len() - 1];
        let lines: Vec<&[u8]> = body.split(|&b| b == b'\n').collect();
        if n == 0 || lines.len() < n {
            v.push(("frame-grammar".into(), format!("cursor moves up {} lines but only {} were printed", n, lines.len())));
            break;
        }
        let frame = &lines[lines.len() - n..];
        for l in &lines[..lines.len() - n] {
            persistent.extend_from_slice(l);
            persistent.push(b'\n');
            let l2 = match find_sub(l, b"\r\x1b[J") {
                Some(p) => &l[p + 4..],
                None => l,
            };
            let is_failed_line = l2.starts_with(b"failed: ");
            // the tag of a command that does not fail: that line is part of a *successful*
            // task's block, hence a different task than any that failed before
            let is_tag = l2.starts_with(b"#s")
                && l2.ends_with(b"#")
                && std::str::from_utf8(&l2[2..l2.len() - 1]).ok().and_then(|n| n.parse::<usize>().ok()).map(|n| sc.steps.iter().any(|s| s.id == n && !s.fail)).unwrap_or(false);
            if is_failed_line || is_tag {
                // a task finished: every failure printed before this line is in the counts by now
                required_failed = failed_lines_now;
            }
            if is_failed_line {
                failed_lines_now += 1;
            }
        }
        let mut bar = frame[0];
        if let Some(p) = find_sub(bar, b"\r\x1b[J") {
            bar = &bar[p + 4..];
        }
        match parse_bar(bar) {
            Err(e) => {
                v.push(("bar".into(), format!("{} in status line {:?} (the cursor-up count {} may also be wrong)", e, String::from_utf8_lossy(bar), n)));
                break;
            }
            Ok((done, total, running)) => {
                // ---- the counts against what the commands really did (C19).  A frame is
                // composed and written with the display state locked, and a command is
                // announced (task_started) before it runs and retired (task_finished) after
                // it returned: so a command that entered before this frame's bytes and
                // returns after them is in the running count, and a step counted as finished
                // has a command that returned before them.
                let frame_len: usize = frame.iter().map(|l| l.len() + 1).sum();
                let fstart = end - frame_len;
                let entered = |id: usize| events.iter().find(|e| e.1 == id && e.2 == 0).map(|e| e.0);
                let returned = |id: usize| events.iter().find(|e| e.1 == id && e.2 == 1).map(|e| e.0);
                let announced = |id: usize| events.iter().find(|e| e.1 == id && e.2 == 2).map(|e| e.0);
                let retiring = |id: usize| events.iter().find(|e| e.1 == id && e.2 == 3).map(|e| e.0);
                let _ = entered;
                let executing = sc.steps.iter().filter(|s| announced(s.id).map(|a| a <= fstart).unwrap_or(false) && retiring(s.id).map(|a| a >= end).unwrap_or(true)).count();
                let returned_n = sc.steps.iter().filter(|s| returned(s.id).map(|a| a <= fstart).unwrap_or(false)).count();
                let returned_fail = sc.steps.iter().filter(|s| s.fail && returned(s.id).map(|a| a <= fstart).unwrap_or(false)).count();
                if !panicked {
                    if running < executing {
                        v.push(("running-undercount".into(), format!("{} commands had been announced to the display as started and not yet as finished while this frame was drawn, the status line says {:?}", executing, String::from_utf8_lossy(bar))));
                    }
                    if running > sc.j {
                        v.push(("running-over-j".into(), format!("-j {} but the status line says {:?}", sc.j, String::from_utf8_lossy(bar))));
                    }
                    if done > returned_n {
                        v.push(("finished-overcount".into(), format!("only {} commands had returned when this frame was drawn, the status line says {:?}", returned_n, String::from_utf8_lossy(bar))));
                    }
                    if let Some(&(pd, _)) = last_done.as_ref() {
                        if done < pd {
                            v.push(("finished-decreased".into(), format!("finished count went from {} to {}: {:?}", pd, done, String::from_utf8_lossy(bar))));
                        }
                    }
                    last_done = Some((done, total));
                }
                let failed_shown = std::str::from_utf8(bar).ok().and_then(|t| t.split(" done, ").nth(1)).and_then(|r| r.split_once(" failed, ")).and_then(|(f, _)| f.parse::<usize>().ok()).unwrap_or(0);
                // descriptions are random text: only count when no description can fake a "failed: " line
                let fakeable = sc.steps.iter().any(|s| s.desc.starts_with("failed: ") || s.chunks.iter().any(|c| c.starts_with(b"failed: ") || find_sub(c, b"\nfailed: ").is_some()));
                // Only while the main loop is demonstrably still turning: keep-going without budget
                // (the k-th failure returns at once, without another update) and another command
                // still running (otherwise the loop may have ended right after the failure).
                if !fakeable && !panicked && failed_shown > returned_fail {
                    v.push(("failed-overcount".into(), format!("only {} failing commands had returned when this frame was drawn, the status line says {:?}", returned_fail, String::from_utf8_lossy(bar))));
                }
                if !fakeable && sc.k.is_none() && failed_shown < required_failed {
                    v.push(("status-counts-stale".into(), format!("{} command(s) had failed before another command's completion was shown, yet the status line still says {:?}", required_failed, String::from_utf8_lossy(bar))));
                }
                shapes.push((done * 1000 / total.max(1), running));
                if total >= 80 {
                    bump(&mut stats, "probe.frame_with_total_ge_80");
                }
            }
        }
        for l in &frame[1..] {
            let limit = width_at(end);
            match std::str::from_utf8(l) {
                Err(_) => v.push(("task-line-utf8".into(), format!("task line is not valid UTF-8: {:?}", String::from_utf8_lossy(l)))),
                Ok(t) => {
                    if l.len() > limit && !t.starts_with("...and ") {
                        v.push(("task-line-width".into(), format!("task line of {} bytes on a terminal of {} columns: {:?}", l.len(), limit, t)));
                    }
                    if t.ends_with("s)") && t.contains("... (") {
                        bump(&mut stats, "probe.truncated_line_with_time_note");
                    }
                    if t.contains("...") {
                        bump(&mut stats, "probe.truncated_line");
                    }
                    if l.len() == limit {
                        bump(&mut stats, "probe.line_exactly_terminal_width");
                    }
                }
            }
        }
        if !v.is_empty() {
            break;
        }
    }
    persistent.extend_from_slice(&cap[pos.min(cap.len())..]);
    // ---- every finished task's output reaches the terminal exactly once (nothing lost or
    // duplicated by the hand-over between main thread, progress thread and shutdown)
    if v.is_empty() && matches!(result, Some(Ok(0))) && sc.steps.iter().all(|s| !s.fail) {
        let count = |hay: &[u8], needle: &[u8]| -> usize {
            if needle.is_empty() || hay.len() < needle.len() {
                return 0;
            }
            hay.windows(needle.len()).filter(|w| *w == needle).count()
        };
        for st in sc.steps.iter().filter(|s| executed.contains(&s.id)) {
            let tag = format!("#s{}#\n", st.id).into_bytes();
            if st.chunks.first() != Some(&tag) {
                continue;
            }
            let n = count(&persistent, &tag);
            bump(&mut stats, "probe.task_output_checked_once");
            if n != 1 {
                v.push(("task-output-shown-once".into(), format!("the output of the command of step {} (tagged {:?}) appears {} times on the terminal", st.id, String::from_utf8_lossy(&tag).trim(), n)));
                break;
            }
        }
    }
    bump(&mut stats, if nframes > 0 { "probe.run_with_frames" } else { "probe.run_without_frames" });
    if resized {
        bump(&mut stats, "fault.terminal_resized_mid_build");
    }
    if sc.cols < 10 {
        bump(&mut stats, "fault.terminal_narrower_than_10");
    }
    if sc.steps.iter().any(|s| s.fail) {
        bump(&mut stats, "fault.command_failure");
    }
    *stats.entry("fault.condvar_timeouts_taken".into()).or_default() += (sc.timeout_budget - tty::TIMEOUT_BUDGET.load(std::sync::atomic::Ordering::SeqCst).min(sc.timeout_budget)) as u64;
    let secs = tty::CLOCK_NS.load(std::sync::atomic::Ordering::SeqCst) / 1_000_000_000;
    if secs > 1000 {
        bump(&mut stats, "fault.clock_jump_gt_1000s");
    }
    TResult {
        violations: v,
        frames: nframes,
        executed: executed.len(),
        stats,
        trace_key: h64(&(executed, shapes)),
        sim_secs: secs,
        frames_text: cap,
    }
}

fn find_sub(h: &[u8], n: &[u8]) -> Option<usize> {
    h.windows(n.len()).position(|w| w == n)
}

/// next "\x1b[<n>A": (offset of ESC, offset after the sequence, n)
fn find_cursor_up(b: &[u8]) -> Option<(usize, usize, usize)> {
    let mut i = 0;
    while i + 2 < b.len() {
        if b[i] == 0x1b && b[i + 1] == b'[' {
            let mut j = i + 2;
            let mut n = 0usize;
            while j < b.len() && b[j].is_ascii_digit() {
                n = n * 10 + (b[j] - b'0') as usize;
                j += 1;
            }
            if j < b.len() && b[j] == b'A' && j > i + 2 {
                return Some((i, j + 1, n));
            }
        }
        i += 1;
    }
    None
}

/// "[<40 chars of = - space>] d/t done, [f failed, ]r/q running"
fn parse_bar(l: &[u8]) -> Result<(usize, usize, usize), String> {
    let t = std::str::from_utf8(l).map_err(|_| "status line is not UTF-8".to_string())?;
    if !t.starts_with('[') {
        return Err("status line does not start with '['".into());
    }
    let close = t.find("] ").ok_or("no '] ' in status line")?;
    let bar = &t[1..close];
    if bar.len() != 40 {
        return Err(format!("progress bar is {} columns wide, not 40", bar.len()));
    }
    if !bar.chars().all(|c| c == '=' || c == '-' || c == ' ') {
        return Err("progress bar contains other characters".into());
    }
    let rest = &t[close + 2..];
    let (frac, rest) = rest.split_once(" done, ").ok_or("no ' done, '")?;
    let (d, tot) = frac.split_once('/').ok_or("no d/t")?;
    let d: usize = d.parse().map_err(|_| "bad done count")?;
    let tot: usize = tot.parse().map_err(|_| "bad total")?;
    let rest = match rest.split_once(" failed, ") {
        Some((_, r)) => r,
        None => rest,
    };
    let run = rest.strip_suffix(" running").ok_or("no ' running'")?;
    let (r, _q) = run.split_once('/').ok_or("no r/q")?;
    let r: usize = r.parse().map_err(|_| "bad running count")?;
    if d > tot {
        return Err(format!("{} done of {}", d, tot));
    }
    Ok((d, tot, r))
}

// ------------------------------------------------------------------ worker / coordinator

#[derive(Serialize, Deserialize, Clone, Debug)]
struct VLine {
    seed: u64,
    code: String,
    detail: String,
}

#[derive(Serialize, Deserialize, Default)]
struct Summary {
    runs: u64,
    frames: u64,
    commands: u64,
    sim_secs: u64,
    stats: BTreeMap<String, u64>,
    keys: Vec<u64>,
    nontrivial: Vec<u64>,
    hashes: Vec<(u64, u64)>,
    samples: Vec<serde_json::Value>,
}

#[derive(Serialize, Deserialize)]
struct Replay {
    engine: String,
    property: String,
    code: String,
    detail: String,
    seed: u64,
    scenario: TScenario,
}

#[derive(Deserialize, Clone, Debug)]
struct Finding {
    id: String,
    property: String,
    code: String,
    status: String,
    what: String,
}
#[derive(Deserialize, Default)]
struct Findings {
    findings: Vec<Finding>,
}

fn install_hook() {
    std::panic::set_hook(Box::new(|info| {
        let msg = if let Some(s) = info.payload().downcast_ref::<String>() {
            s.clone()
        } else if let Some(s) = info.payload().downcast_ref::<&str>() {
            s.to_string()
        } else {
            "?".into()
        };
        let loc = info.location().map(|l| format!("{}:{}", l.file().rsplit('/').next().unwrap_or(""), l.line())).unwrap_or_default();
        if let Ok(mut p) = PANICS.try_lock() {
            p.push(format!("{} at {}", msg.lines().next().unwrap_or(""), loc));
        }
    }));
}

fn worker(out: &mut std::fs::File, base: u64, lo: u64, hi: u64, w: u64, nw: u64, hash_every: u64) {
    install_hook();
    setup_pty();
    let dir = format!("/dev/shm/n2tty-{}-{}", std::process::id(), w);
    let mut sum = Summary::default();
    let mut keys = BTreeSet::new();
    let mut nt = BTreeSet::new();
    let mut poisoned = false;
    let mut seeds = Vec::new();
    let mut i = lo + ((w + nw - lo % nw) % nw);
    while i < hi {
        seeds.push((i, base.wrapping_add(i)));
        i += nw;
    }
    for chunk in seeds.chunks(64) {
        let _ = writeln!(out, "B {}", chunk[0].1);
        let idx: BTreeMap<u64, u64> = chunk.iter().map(|(i, s)| (*s, *i)).collect();
        let mut sink = |sc: &TScenario, r: &TResult| {
            let seed = sc.seed;
            sum.runs += 1;
            sum.frames += r.frames as u64;
            sum.commands += r.executed as u64;
            sum.sim_secs += r.sim_secs;
            for (k, x) in &r.stats {
                *sum.stats.entry(k.clone()).or_default() += x;
            }
            keys.insert(r.trace_key);
            if r.frames > 0 && r.executed >= 2 {
                nt.insert(r.trace_key);
            }
            if hash_every > 0 && idx.get(&seed).map(|i| i % hash_every == 0).unwrap_or(false) {
                sum.hashes.push((seed, h64(&(r.trace_key, &r.frames_text, r.violations.len()))));
            }
            if sum.samples.len() < 2 && r.frames >= 2 && sc.steps.len() <= 4 {
                sum.samples.push(serde_json::json!({"seed": seed, "cols": sc.cols, "manifest": render(sc),
                    "frames": String::from_utf8_lossy(&r.frames_text).replace('\x1b', "^[").chars().take(900).collect::<String>()}));
            }
            for (c, d) in &r.violations {
                let _ = writeln!(out, "V {}", serde_json::to_string(&VLine { seed, code: c.clone(), detail: d.clone() }).unwrap());
                if c == "panic" || c == "hang" {
                    poisoned = true;
                }
            }
        };
        run_batch(chunk.iter().map(|(_, s)| *s).collect(), &dir, &mut sink);
        if poisoned {
            // after a panic inside a shuttle execution this process is not trusted any more:
            // stop here (what was found is reported; the rest of this worker's seeds is not run)
            *sum.stats.entry("probe.worker_stopped_after_panic".into()).or_default() += 1;
            break;
        }
    }
    sum.keys = keys.into_iter().collect();
    sum.nontrivial = nt.into_iter().collect();
    let _ = writeln!(out, "S {}", serde_json::to_string(&sum).unwrap());
    std::env::set_current_dir("/").unwrap();
    let _ = std::fs::remove_dir_all(&dir);
}

struct WOut {
    viols: Vec<VLine>,
    summary: Option<Summary>,
    last_begin: Option<u64>,
    status: std::process::ExitStatus,
}

fn run_workers(base: u64, lo: u64, hi: u64, nw: u64, hash_every: u64) -> Vec<WOut> {
    let exe = std::env::current_exe().unwrap();
    let mut hs = Vec::new();
    for w in 0..nw {
        let mut child = Command::new(&exe)
            .args(["worker", &base.to_string(), &lo.to_string(), &hi.to_string(), &w.to_string(), &nw.to_string(), &hash_every.to_string()])
            .stdin(Stdio::null())
            .stdout(Stdio::piped())
            .stderr(Stdio::null())
            .spawn()
            .expect("spawn");
        let so = child.stdout.take().unwrap();
        hs.push(std::thread::spawn(move || {
            let mut viols = vec![];
            let mut summary = None;
            let mut last_begin = None;
            for line in BufReader::new(so).lines().map_while(Result::ok) {
                if let Some(r) = line.strip_prefix("V ") {
                    if let Ok(v) = serde_json::from_str(r) {
                        viols.push(v);
                    }
                } else if let Some(r) = line.strip_prefix("S ") {
                    summary = serde_json::from_str(r).ok();
                } else if let Some(r) = line.strip_prefix("B ") {
                    last_begin = r.parse().ok();
                }
            }
            let status = child.wait().unwrap();
            WOut { viols, summary, last_begin, status }
        }));
    }
    hs.into_iter().map(|h| h.join().unwrap()).collect()
}

fn env_u64(k: &str, d: u64) -> u64 {
    std::env::var(k).ok().and_then(|v| v.parse().ok()).unwrap_or(d)
}

fn minimise(sc: &TScenario, code: &str, dir: &str) -> TScenario {
    let fails = |s: &TScenario| run(s, dir).violations.iter().any(|(c, _)| c == code);
    let mut cur = sc.clone();
    let mut i = cur.steps.len();
    while i > 0 {
        i -= 1;
        if cur.steps.len() <= 1 {
            break;
        }
        let mut c = cur.clone();
        let gone = c.steps.remove(i).id;
        for s in c.steps.iter_mut() {
            s.after.retain(|a| *a != gone);
        }
        if fails(&c) {
            cur = c;
        }
    }
    for f in [
        |s: &mut TScenario| s.k = None,
        |s: &mut TScenario| s.verbose = false,
        |s: &mut TScenario| s.j = 1,
        |s: &mut TScenario| s.timeout_budget = 0,
        |s: &mut TScenario| {
            for st in s.steps.iter_mut() {
                st.resize = None;
                st.pool = false;
                st.hide_progress = false;
            }
        },
        |s: &mut TScenario| {
            for st in s.steps.iter_mut() {
                st.chunks.clear();
                st.secs.clear();
            }
        },
        |s: &mut TScenario| {
            for st in s.steps.iter_mut() {
                st.fail = false;
            }
        },
    ] {
        let mut c = cur.clone();
        f(&mut c);
        if c != cur && fails(&c) {
            cur = c;
        }
    }
    cur
}

const C19_CODES: [&str; 6] = ["status-counts-stale", "running-undercount", "running-over-j", "finished-overcount", "finished-decreased", "failed-overcount"];

/// oracle codes each property's tty leg reports
fn codes_of(prop: &str) -> Option<Vec<&'static str>> {
    match prop {
        "C16" => Some(vec!["task-output-shown-once"]),
        "C19" => Some(C19_CODES.to_vec()),
        _ => None, // C20: everything but the count-accuracy codes of C19
    }
}

fn check(prop: &str, tier: &str) -> i32 {
    let t0 = std::time::Instant::now();
    let quick = tier != "thorough";
    let nw = env_u64("VERIF_WORKERS", 16).max(1);
    let base = env_u64("VERIF_SEED", 1).wrapping_mul(10_000_019);
    let main = prop == "C20";
    let runs = env_u64("VERIF_TTY_RUNS", if main { if quick { 150_000 } else { 3_000_000 } } else if quick { 40_000 } else { 600_000 });
    let findings: Findings = std::fs::read_to_string(format!("{}/known_findings.json", VERIF)).ok().and_then(|s| serde_json::from_str(&s).ok()).unwrap_or_default();
    // determinism sample
    let det_n = if quick { 800 } else { 4000 };
    let a = run_workers(base, 0, det_n, 8, 1);
    let b = run_workers(base, 0, det_n, 3, 1);
    let coll = |o: &Vec<WOut>| -> BTreeMap<u64, u64> { o.iter().filter_map(|w| w.summary.as_ref()).flat_map(|s| s.hashes.iter().cloned()).collect() };
    let (ha, hb) = (coll(&a), coll(&b));
    let bad: Vec<u64> = ha.iter().filter(|(s, h)| hb.get(s).map(|x| x != *h).unwrap_or(false)).map(|(s, _)| *s).collect();
    if !bad.is_empty() {
        eprintln!("harness error: non-deterministic replay for seeds {:?}", &bad[..bad.len().min(10)]);
        return 2;
    }
    let outs = run_workers(base, 0, runs, nw, 0);
    let mut tot = Summary::default();
    let mut keys = BTreeSet::new();
    let mut nt = BTreeSet::new();
    let mut viols: Vec<VLine> = vec![];
    let mut dead = vec![];
    for o in outs {
        viols.extend(o.viols);
        match o.summary {
            Some(s) => {
                tot.runs += s.runs;
                tot.frames += s.frames;
                tot.commands += s.commands;
                tot.sim_secs += s.sim_secs;
                for (k, x) in s.stats {
                    *tot.stats.entry(k).or_default() += x;
                }
                keys.extend(s.keys);
                nt.extend(s.nontrivial);
                if tot.samples.len() < 3 {
                    tot.samples.extend(s.samples.into_iter().take(1));
                }
            }
            None => dead.push((o.last_begin.unwrap_or(0), format!("{:?}", o.status))),
        }
    }
    // a worker killed by a signal: n2 aborted the process (e.g. panic while panicking):
    // find the seed of its 64-scenario batch (stride = number of workers) that does it
    for (begin, status) in &dead {
        let mut culprit = *begin;
        for k in 0..64u64 {
            let sd = begin + k * nw;
            let st = Command::new(std::env::current_exe().unwrap()).args(["one", &sd.to_string()]).stdout(Stdio::null()).stderr(Stdio::null()).status();
            if !matches!(st, Ok(s) if s.code().is_some()) {
                culprit = sd;
                break;
            }
        }
        viols.push(VLine { seed: culprit, code: "process-abort".into(), detail: format!("the process running n2 died ({}) in the run of seed {}", status, culprit) });
    }
    if let Some(codes) = codes_of(prop) {
        viols.retain(|v| codes.contains(&v.code.as_str()));
    } else {
        viols.retain(|v| !C19_CODES.contains(&v.code.as_str()));
    }
    viols.sort_by_key(|v| (v.code.clone(), v.seed));
    let mut by: BTreeMap<String, Vec<VLine>> = BTreeMap::new();
    for v in viols {
        by.entry(v.code.clone()).or_default().push(v);
    }
    let _ = std::fs::create_dir_all(format!("{}/replays", VERIF));
    let mut nviol = 0;
    let mut known_lines = vec![];
    let mut replays = vec![];
    for (code, vs) in &by {
        if let Some(f) = findings.findings.iter().find(|f| f.status == "known" && f.property == prop && &f.code == code) {
            known_lines.push(format!("KNOWN-FINDING: property={} {} [{}] {} ({} runs hit it, e.g. seed {})", prop, code, f.id, f.what, vs.len(), vs[0].seed));
            continue;
        }
        let v = &vs[0];
        let path = format!("{}/replays/{}-{}-{}.json", VERIF, prop, code, v.seed);
        let sc = gen(v.seed);
        // minimise in a child process (an abort must not take the coordinator down)
        let rp = Replay { engine: "ttysim".into(), property: prop.into(), code: code.clone(), detail: v.detail.clone(), seed: v.seed, scenario: sc };
        std::fs::write(&path, serde_json::to_string_pretty(&rp).unwrap()).unwrap();
        if code != "process-abort" {
            let _ = Command::new(std::env::current_exe().unwrap()).args(["minimise", &path]).stdout(Stdio::null()).stderr(Stdio::null()).status();
        }
        // a panic inside n2 may turn into a process abort (a second panic while unwinding,
        // e.g. in a destructor that meets a poisoned lock): for the never-panics / never-aborts
        // oracles the death of the replaying process reproduces the violation
        let abort_class = code == "process-abort" || code == "panic";
        let replay_ok = |path: &str| -> bool {
            let st = Command::new(std::env::current_exe().unwrap()).args(["replay", path]).stdout(Stdio::null()).stderr(Stdio::null()).status();
            match st {
                Ok(s) => s.code() == Some(1) || (abort_class && s.code().is_none()),
                Err(_) => false,
            }
        };
        let mut ok = replay_ok(&path);
        if !ok && code != "process-abort" {
            // the minimised scenario does not reproduce in a fresh process: keep the original one
            std::fs::write(&path, serde_json::to_string_pretty(&rp).unwrap()).unwrap();
            ok = replay_ok(&path);
        }
        if !ok {
            eprintln!("harness error: replay of {} did not reproduce", path);
            return 2;
        }
        println!("violation: {} {} ({} runs): {}", prop, code, vs.len(), v.detail);
        println!("VIOLATION property={} replay={}", prop, path);
        replays.push(path);
        nviol += 1;
    }
    for l in &known_lines {
        println!("{}", l);
    }
    let wall = t0.elapsed().as_secs_f64();
    let faults: BTreeMap<String, u64> = tot.stats.iter().filter(|(k, _)| k.starts_with("fault.")).map(|(k, v)| (k.clone(), *v)).collect();
    let probes: BTreeMap<String, u64> = tot.stats.iter().filter(|(k, _)| k.starts_with("probe.")).map(|(k, v)| (k.clone(), *v)).collect();
    let ev = serde_json::json!({
        "property_id": prop, "tier": if quick {"quick"} else {"thorough"}, "seed": env_u64("VERIF_SEED", 1), "level": "exploration",
        "wall_s": wall, "violations": nviol,
        "coverage": {
            "evaluations": tot.runs,
            "distinct_nontrivial": nt.len(),
            "rule": "one evaluation = one shuttle execution of the whole n2::run::run() (main loop, one thread per running command, fancy-progress debounce thread) for one seeded scenario (steps, descriptions and output lines around the truncation boundaries, simulated durations, terminal width and resizes, -j/-k/-v) under a seeded random or PCT schedule; distinct = distinct (command execution order, sequence of rendered done-fraction/running-count pairs); non-trivial = at least 2 commands executed and at least one frame rendered",
            "samples": tot.samples,
            "simulated_runs": tot.runs,
            "frames_rendered": tot.frames,
            "commands_executed": tot.commands,
            "runs_per_hour": (tot.runs as f64 / wall * 3600.0) as u64,
            "simulated_seconds": tot.sim_secs,
            "distinct_traces": keys.len(),
            "faults_fired": faults,
            "probes": probes,
            "determinism_sample": {"seeds": det_n, "processes": [8, 3], "mismatches": 0},
            "known_findings_hit": known_lines,
            "replays": replays,
            "components": {
                "real": ["n2::run::run incl. work loop, task::Runner threads and mpsc protocol, progress_fancy (debounce thread, Mutex/Condvar protocol, print_progress, task_message, truncate, progress_bar), terminal::use_fancy/get_cols on a real pty", "kernel tmpfs"],
                "stub": ["std::thread / Mutex / Condvar / mpsc -> shuttle", "Instant, sleep, condvar time-outs -> simulated clock", "subprocess -> scripted commands", "progress_fancy's stdout -> capture buffer"]
            }
        },
        "assumptions": ["seeded search over schedules and inputs: a clean batch is evidence, not proof"]
    });
    let _ = std::fs::create_dir_all(format!("{}/evidence", VERIF));
    let evname = if main { format!("{}/evidence/{}.json", VERIF, prop) } else { format!("{}/evidence/{}.tty.json", VERIF, prop) };
    std::fs::write(evname, serde_json::to_string_pretty(&ev).unwrap()).unwrap();
    println!("{} {} (tty engine): {} runs, {} frames, {} commands, {} distinct traces ({} non-trivial), {} violations, {:.1}s", prop, tier, tot.runs, tot.frames, tot.commands, keys.len(), nt.len(), nviol, wall);
    if nviol > 0 {
        1
    } else {
        0
    }
}

fn main() {
    let a: Vec<String> = std::env::args().collect();
    match a.get(1).map(|s| s.as_str()) {
        Some("check") => std::process::exit(check(a.get(2).map(|s| s.as_str()).unwrap_or("C20"), a.get(3).map(|s| s.as_str()).unwrap_or("quick"))),
        Some("one") => {
            let _saved = unsafe { libc::fcntl(1, libc::F_DUPFD_CLOEXEC, 10) };
            install_hook();
            setup_pty();
            let seed: u64 = a[2].parse().unwrap();
            let dir = format!("/dev/shm/n2tty-one-{}", std::process::id());
            let _ = run(&gen(seed), &dir);
            let _ = std::env::set_current_dir("/");
            let _ = std::fs::remove_dir_all(&dir);
        }
        Some("worker") => {
            // fd 1 becomes the pty: keep the pipe to the coordinator on another descriptor
            let saved = unsafe { libc::fcntl(1, libc::F_DUPFD_CLOEXEC, 10) };
            let mut out = unsafe { <std::fs::File as std::os::fd::FromRawFd>::from_raw_fd(saved) };
            let n = |i: usize| -> u64 { a[i].parse().unwrap() };
            worker(&mut out, n(2), n(3), n(4), n(5), n(6), n(7));
        }
        Some("replay") | Some("minimise") => {
            let saved = unsafe { libc::fcntl(1, libc::F_DUPFD_CLOEXEC, 10) };
            let mut out = unsafe { <std::fs::File as std::os::fd::FromRawFd>::from_raw_fd(saved) };
            install_hook();
            setup_pty();
            let text = std::fs::read_to_string(&a[2]).expect("replay file");
            let mut rp: Replay = serde_json::from_str(&text).expect("replay json");
            let dir = format!("/dev/shm/n2tty-replay-{}", std::process::id());
            if a[1] == "minimise" {
                rp.scenario = minimise(&rp.scenario, &rp.code, &dir);
                let r = run(&rp.scenario, &dir);
                if let Some((_, d)) = r.violations.iter().find(|(c, _)| *c == rp.code) {
                    rp.detail = d.clone();
                }
                std::fs::write(&a[2], serde_json::to_string_pretty(&rp).unwrap()).unwrap();
                let _ = std::fs::remove_dir_all(&dir);
                return;
            }
            let r = run(&rp.scenario, &dir);
            let _ = std::env::set_current_dir("/");
            let _ = std::fs::remove_dir_all(&dir);
            let mut hit = false;
            for (c, d) in &r.violations {
                let _ = writeln!(out, "violation: {} {} {}", rp.property, c, d);
                if *c == rp.code {
                    hit = true;
                }
            }
            if a.get(3).map(|s| s == "v").unwrap_or(false) {
                let _ = writeln!(out, "{}", String::from_utf8_lossy(&r.frames_text).replace('\x1b', "^["));
            }
            if hit {
                let _ = writeln!(out, "VIOLATION property={} replay={}", rp.property, a[2]);
                std::process::exit(1);
            }
            let _ = writeln!(out, "replay: violation {} did not reproduce", rp.code);
        }
        Some("dev") => {
            let saved = unsafe { libc::fcntl(1, libc::F_DUPFD_CLOEXEC, 10) };
            let mut out = unsafe { <std::fs::File as std::os::fd::FromRawFd>::from_raw_fd(saved) };
            install_hook();
            setup_pty();
            let from: u64 = a[2].parse().unwrap();
            let to: u64 = a[3].parse().unwrap();
            let dir = format!("/dev/shm/n2tty-dev-{}", std::process::id());
            let t0 = std::time::Instant::now();
            let mut kinds: BTreeMap<String, usize> = BTreeMap::new();
            let mut frames = 0;
            let verbose = a.get(4).is_some();
            let mut sink = |sc: &TScenario, r: &TResult| {
                frames += r.frames;
                for (c, d) in &r.violations {
                    let e = kinds.entry(c.clone()).or_default();
                    if *e < 100000 {
                        let _ = writeln!(out, "VIOL seed {}: {} {}", sc.seed, c, d.chars().take(300).collect::<String>());
                    }
                    *e += 1;
                }
                if verbose {
                    let _ = writeln!(out, "{}\n{}", render(sc), String::from_utf8_lossy(&r.frames_text).replace('\x1b', "^["));
                }
            };
            run_batch((from..to).collect(), &dir, &mut sink);
            let _ = writeln!(out, "seeds {}..{}: {} frames, kinds {:?}, {:.1}s", from, to, frames, kinds, t0.elapsed().as_secs_f64());
            let _ = std::env::set_current_dir("/");
            let _ = std::fs::remove_dir_all(&dir);
        }
        _ => {
            eprintln!("usage: ttysim check C20 quick|thorough | replay <file> [v] | dev <from> <to> [v]");
            std::process::exit(2);
        }
    }
}
