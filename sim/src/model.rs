//! Reference model state: projects (disk / in-memory), the log mirror, the
//! logical clock, and the M-dirty predictor (DESIGN.md Appendix A).
use crate::disk::{self, MT};
use crate::project::*;
use std::collections::{BTreeSet, HashMap};

#[derive(Clone, Debug, PartialEq)]
pub struct Sig {
    pub ins: Vec<(String, MT)>,
    pub deps: Vec<(String, MT)>,
    pub cmd: String,
    pub rsp: Option<(String, String)>,
    pub outs: Vec<(String, MT)>,
}

#[derive(Clone, Debug)]
pub struct Rec {
    pub outs: Vec<String>,
    pub deps: Vec<String>,
    pub sig: Sig,
    /// size of the log file right after the last append of this record's group
    pub end_off: u64,
    /// the group was cut by a fault: never a survivor
    pub torn: bool,
    /// a fault hit the group right after a complete write: whether the group
    /// was complete cannot be known without knowing the format
    pub uncertain: bool,
}

pub struct Model {
    /// what the manifest on disk says
    pub disk: Project,
    /// what n2 has loaded in the current invocation
    pub mem: Project,
    pub variants: Vec<Project>,
    /// variant named by the generator input on disk
    pub gen_input_variant: usize,
    pub recs: Vec<Rec>,
    pub tick: i64,
    /// outputs declared up to date by adoption without having been produced
    pub taint: BTreeSet<String>,
    /// every name that was ever part of a record since the log was last deleted
    pub ever_logged: BTreeSet<String>,
    /// the log was torn (death / error inside a write, truncation) since it was last deleted
    pub log_torn_ever: bool,
    /// records with index below this may be superseded by a record of unknown owner
    /// (an adoption record that was appended right before n2 died)
    pub orphan_cut: Option<usize>,
    /// outputs may have been adopted without the model knowing which
    pub content_unknown: bool,
    /// number of invocations completed since the log was last torn
    pub inv_since_tear: Option<usize>,
    /// names of the edit operations applied since the last invocation
    pub edits_since_invoke: Vec<&'static str>,
    /// source files edited / touched / deleted / restored since the last invocation
    pub edited_files_since_invoke: Vec<String>,
    /// the previous invocation was a fault-free, ordinary, successful one
    pub prev_exit0: bool,
    /// (step id -> reason) a success left no record because a reported dependency was missing
    pub norecord_dep_missing: BTreeSet<usize>,
}

impl Model {
    pub fn next_tick(&mut self) -> MT {
        self.tick += 1;
        (self.tick, 0)
    }

    /// Appendix A.1: the record that applies to step si of `p`
    pub fn rec_for<'a>(&'a self, p: &Project, si: usize) -> Option<&'a Rec> {
        let s = &p.steps[si];
        self.recs
            .iter()
            .rev()
            .find(|r| !r.outs.is_empty() && (r.outs == s.outs || r.outs.iter().all(|o| s.outs.contains(o))))
    }

    pub fn sig_now(&self, p: &Project, si: usize, deps: &[String]) -> Option<Sig> {
        let s = &p.steps[si];
        let mut ins = Vec::new();
        for f in s.exp.iter().chain(&s.imp) {
            ins.push((f.clone(), disk::mtime(f)?));
        }
        let mut d = Vec::new();
        for f in deps {
            d.push((f.clone(), disk::mtime(f)?));
        }
        let mut outs = Vec::new();
        for f in &s.outs {
            outs.push((f.clone(), disk::mtime(f)?));
        }
        Some(Sig {
            ins,
            deps: d,
            cmd: p.cmdline(s),
            rsp: s.rsp.as_ref().map(|r| (r.path.clone(), p.rsp_content(s).unwrap())),
            outs,
        })
    }

    /// Appendix A.2; None = clean
    pub fn dirty(&self, p: &Project, si: usize) -> Option<String> {
        let s = &p.steps[si];
        if s.phony {
            return None;
        }
        let rec = match self.rec_for(p, si) {
            None if self.norecord_dep_missing.contains(&s.id) => {
                return Some("no record: a reported dependency (deps) was missing when it last completed".into())
            }
            None => return Some("no record".into()),
            Some(r) => r,
        };
        match self.sig_now(p, si, &rec.deps) {
            None => Some("file missing".into()),
            Some(sig) => {
                if sig != rec.sig {
                    let mut why = String::from("sig differs:");
                    if sig.ins != rec.sig.ins {
                        why.push_str(" ins");
                    }
                    if sig.deps != rec.sig.deps {
                        why.push_str(" deps");
                    }
                    if sig.cmd != rec.sig.cmd {
                        why.push_str(" cmd");
                    }
                    if sig.rsp != rec.sig.rsp {
                        why.push_str(" rsp");
                    }
                    if sig.outs != rec.sig.outs {
                        why.push_str(" outs");
                    }
                    Some(why)
                } else {
                    None
                }
            }
        }
    }

    /// false if the record that would decide si's dirtiness may or may not be in the log
    pub fn judgeable(&self, p: &Project, si: usize) -> bool {
        if let Some(cut) = self.orphan_cut {
            let s = &p.steps[si];
            let idx = self.recs.iter().rposition(|r| !r.outs.is_empty() && (r.outs == s.outs || r.outs.iter().all(|o| s.outs.contains(o))));
            if idx.map(|i| i < cut).unwrap_or(true) {
                return false;
            }
        }
        !self.rec_for(p, si).map(|r| r.uncertain).unwrap_or(false)
    }

    /// Appendix A.3: discovered deps to record for a success of step si that reported `reported`
    pub fn deps_to_record(p: &Project, si: usize, reported: &Option<Vec<String>>) -> Vec<String> {
        let s = &p.steps[si];
        let mut deps: Vec<String> = Vec::new();
        let mut seen: std::collections::HashSet<String> = std::collections::HashSet::new();
        if let Some(rep) = reported {
            for h in rep {
                let h = canon(h);
                if !seen.contains(&h) && !s.exp.contains(&h) && !s.imp.contains(&h) {
                    seen.insert(h.clone());
                    deps.push(h);
                }
            }
        }
        deps
    }

    /// does the M-clean content of `f` depend on a tainted (adopted, never produced) output?
    pub fn depends_on_taint(&self, p: &Project, f: &str, seen: &mut BTreeSet<String>) -> bool {
        if self.taint.is_empty() {
            return false;
        }
        if !seen.insert(f.to_string()) {
            return false;
        }
        if self.taint.contains(f) {
            return true;
        }
        if let Some(si) = p.producer(f) {
            let s = &p.steps[si];
            for i in s.exp.iter().chain(&s.imp) {
                if self.depends_on_taint(p, i, seen) {
                    return true;
                }
            }
            if let Ok(h) = p.hidden(s, &|n| disk::exists(n)) {
                for i in &h {
                    if self.depends_on_taint(p, i, seen) {
                        return true;
                    }
                }
            }
        }
        false
    }

    pub fn clean_content(&self, p: &Project, f: &str, memo: &mut HashMap<String, String>) -> String {
        p.clean(f, memo)
    }

    /// records wholly inside the first `len` bytes of the log survive
    pub fn cut_log(&mut self, len: u64) {
        self.recs.retain(|r| !r.torn && r.end_off <= len);
    }
}
