#!/bin/bash
# Confirm a seeded change independently in its scratch worktree:
#   tests pass with the patch; demo fails with the patch and passes without.
# usage: seeded_confirm.sh <Cnn> <a|b>     (worktree /tmp/seeded/<Cnn>, output /tmp/seeded/<Cnn>-out/<a|b>)
id=$1; v=$2; wt=/tmp/seeded/$id; out=/tmp/seeded/$id-out/$v
cd $wt || exit 2
git checkout -q -- . ; git clean -qfd -e target 2>/dev/null
git apply --check $out/patch.diff || { echo "$id-$v: PATCH DOES NOT APPLY"; exit 1; }
cargo build --offline -q 2>/dev/null; cp target/debug/n2 /tmp/seeded/$id-out/n2.base.$v
git apply $out/patch.diff
cargo build --offline -q 2>$out/build.log || { echo "$id-$v: DOES NOT COMPILE"; git checkout -q -- .; exit 1; }
cp target/debug/n2 /tmp/seeded/$id-out/n2.patched.$v
t=$(cargo test --workspace --no-fail-fast --offline 2>&1 | grep -E "^test result" | awk '{p+=$4; f+=$6} END {print p" passed "f" failed"}')
git checkout -q -- .
demo=$out/demo.sh
if [ -f $demo ]; then
  (cd /tmp && timeout 300 bash $demo /tmp/seeded/$id-out/n2.patched.$v >$out/demo.patched.log 2>&1); rp=$?
  (cd /tmp && timeout 300 bash $demo /tmp/seeded/$id-out/n2.base.$v >$out/demo.base.log 2>&1); rb=$?
else rp=na; rb=na; fi
echo "$id-$v: tests[$t] demo_with_patch=$rp demo_without=$rb"
