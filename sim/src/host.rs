//! SimHost: scheduler, fault plan, scripted executor and event log for one
//! simulated invocation of n2.
use crate::disk;
use crate::model::*;
use crate::project::*;
use crate::rng::{h64, Rng};
use crate::scenario::*;
use n2::verif::{Host, Op as IoOp, SimCrash, Termination, WriteFate};
use std::cell::RefCell;
use std::collections::{BTreeMap, HashMap};
use std::rc::Rc;

#[derive(Clone, Debug)]
pub struct Violation {
    pub prop: &'static str,
    pub code: String,
    pub detail: String,
}

pub fn viol(prop: &'static str, code: &str, detail: String) -> Violation {
    Violation {
        prop,
        code: code.to_string(),
        detail,
    }
}

#[derive(Clone, Debug, PartialEq)]
pub enum Ev {
    Start(usize),
    Exec(usize),
    /// 0 ok, 1 failed, 2 interrupted
    Deliver(usize, u8),
    Update([usize; 6]),
    State {
        bid: usize,
        sid: Option<usize>,
        phony: bool,
        prev: u8,
        next: u8,
    },
    DbWrite(usize),
    /// the manifest was read a second time
    Reload,
    Fault(&'static str),
}

#[derive(Clone, Debug)]
pub enum Tee {
    Started(usize, String),
    Finished(usize, u8, Vec<u8>),
}

pub struct Pending {
    pub sid: usize,
    pub rec: Rec,
    pub written: bool,
}

#[derive(Default)]
pub struct Stats {
    pub c: BTreeMap<String, u64>,
}
impl Stats {
    pub fn bump(&mut self, k: &str) {
        *self.c.entry(k.to_string()).or_default() += 1;
    }
    pub fn add(&mut self, k: &str, n: u64) {
        *self.c.entry(k.to_string()).or_default() += n;
    }
}

pub struct Shared {
    pub model: Model,
    pub ev: Vec<Ev>,
    pub tee: Vec<Tee>,
    pub points: usize,
    pub dbwrites: usize,
    pub viol: Vec<Violation>,
    /// (step id, dirty reason at start per M-dirty, phase segment)
    pub started_dirty: Vec<(usize, Option<String>)>,
    pub reported: HashMap<usize, Option<Vec<String>>>,
    pub expected_out: HashMap<usize, Option<Vec<u8>>>,
    pub planned_term: HashMap<usize, u8>,
    /// the discovered deps n2 held for a step when it last judged it in this invocation
    pub held_deps: HashMap<usize, Vec<String>>,
    pub pending: Option<Pending>,
    /// appends seen while no task record was pending (adoption): (end offset, torn)
    pub orphan: Option<(u64, bool, bool)>,
    pub stats: Stats,
    pub manifest_opens: usize,
    pub adopt: bool,
    pub db_path: String,
    pub sigint_raised: bool,
    pub io_err_fired: bool,
    pub dbfault_fired: bool,
    pub crash_fired: bool,
    pub states: HashMap<usize, (u8, bool, Option<usize>)>,
    /// steps whose task closure was hit by an injected I/O error
    pub task_io_err: Vec<usize>,
    /// steps that succeeded with all files present but for which nothing was appended to the log
    pub unrecorded: Vec<usize>,
}

impl Shared {
    pub fn new(model: Model) -> Shared {
        Shared {
            model,
            ev: vec![],
            tee: vec![],
            points: 0,
            dbwrites: 0,
            viol: vec![],
            started_dirty: vec![],
            reported: HashMap::new(),
            expected_out: HashMap::new(),
            planned_term: HashMap::new(),
            held_deps: HashMap::new(),
            pending: None,
            orphan: None,
            stats: Stats::default(),
            manifest_opens: 0,
            adopt: false,
            db_path: String::new(),
            sigint_raised: false,
            io_err_fired: false,
            dbfault_fired: false,
            crash_fired: false,
            states: HashMap::new(),
            task_io_err: vec![],
            unrecorded: vec![],
        }
    }
    pub fn reset_invocation(&mut self) {
        self.ev.clear();
        self.tee.clear();
        self.points = 0;
        self.dbwrites = 0;
        self.started_dirty.clear();
        self.reported.clear();
        self.expected_out.clear();
        self.planned_term.clear();
        self.held_deps.clear();
        self.pending = None;
        self.orphan = None;
        self.manifest_opens = 0;
        self.sigint_raised = false;
        self.io_err_fired = false;
        self.dbfault_fired = false;
        self.crash_fired = false;
        self.states.clear();
        self.task_io_err.clear();
        self.unrecorded.clear();
    }
    /// close the record group of the last successful delivery
    pub fn finalize_pending(&mut self) {
        if let Some(mut p) = self.pending.take() {
            if p.written {
                self.model.recs.push(p.rec);
            } else {
                // n2 appended nothing although the step succeeded with every file present
                self.unrecorded.push(p.sid);
                p.rec.end_off = disk::file_len(&self.db_path).unwrap_or(0);
                p.rec.uncertain = true;
                self.model.recs.push(p.rec);
            }
        }
    }
}

pub struct SimHost {
    pub sh: Rc<RefCell<Shared>>,
    pub spec: InvokeSpec,
    pub rng: Rng,
    /// step ids of stored, not yet executed task closures (same order as the shim's list)
    pub pend: Vec<usize>,
    /// step ids by sender id - 1 for the current channel
    pub chan: Vec<usize>,
    pub held: Vec<usize>,
    pub epoch: u64,
    pub real_spawn: bool,
    /// step id of the task closure executing now / last
    pub cur: Option<usize>,
}

pub fn step_id_of(cmd: &str) -> Option<usize> {
    let mut it = cmd.split(' ');
    let first = it.next()?;
    if first != "sim" {
        return None;
    }
    let t = it.next()?;
    t.strip_prefix('s')?.parse().ok()
}

fn sid_of_desc(desc: Option<&str>) -> Option<usize> {
    desc?.strip_prefix("D s")?.parse().ok()
}

impl SimHost {
    fn prio(&self, sid: usize) -> u64 {
        h64(&(self.spec.sub, sid, self.epoch))
    }
    fn is_held(&self, sid: usize) -> bool {
        self.held.contains(&sid)
    }
}

/// Console output of a simulated command: chunks as the pipe would deliver
/// them, and the bytes n2 is expected to show (showIncludes lines removed).
pub fn out_plan(r: &mut Rng, sid: usize, msvc: bool, hidden: &[String]) -> (Vec<Vec<u8>>, Vec<u8>, Vec<String>) {
    let mut lines: Vec<(Vec<u8>, bool)> = Vec::new();
    // (line bytes, name) of the Note lines, to recover the order in which n2 sees the names
    let mut note_names: Vec<(Vec<u8>, String)> = Vec::new();
    let kind = r.below(100);
    if kind < 35 {
    } else if kind < 60 {
        lines.push((format!("hello from s{}\n", sid).into_bytes(), false));
    } else if kind < 72 {
        for i in 0..2 + r.below(4) {
            lines.push((format!("s{} line {}\n", sid, i).into_bytes(), false));
        }
    } else if kind < 78 {
        lines.push((format!("s{} warning: x\n", sid).into_bytes(), false));
        lines.push((format!("s{} no newline at end", sid).into_bytes(), false));
    } else if kind < 82 {
        lines.push((vec![b'b', 0, 0xff, 0xfe, b'\r', b'x', b'\n'], false));
        lines.push((vec![0xc3, b'(', b'\n'], false));
    } else if kind < 85 {
        lines.push((b"\n".to_vec(), false));
        lines.push((format!("s{} after blank\n", sid).into_bytes(), false));
    } else if kind < 88 {
        let total = [4095usize, 4096, 4097, 8192, 65536, 70001][r.below(6)];
        if r.pct(50) {
            let mut v = vec![b'z'; total - 1];
            v.push(b'\n');
            lines.push((v, false));
        } else {
            let mut left = total;
            let mut i = 0;
            while left > 0 {
                let n = left.min(97);
                let mut v = format!("{:06} ", i).into_bytes();
                v.resize(n.max(1) - 1, b'.');
                v.push(b'\n');
                v.truncate(n);
                if n == left && !v.ends_with(b"\n") {
                    let l = v.len();
                    v[l - 1] = b'\n';
                }
                left -= v.len();
                lines.push((v, false));
                i += 1;
            }
        }
    } else {
        lines.push((format!("s{} \u{2501}\u{2501}\u{fc}\u{1F600} done\n", sid).into_bytes(), false));
    }
    if msvc {
        let unterminated_last = lines.last().map(|l| !l.0.ends_with(b"\n")).unwrap_or(false);
        let many = hidden.len() > 2000;
        if many {
            // big shapes: plain lines in front, no quadratic inserts
            let mut pre: Vec<(Vec<u8>, bool)> = hidden.iter().map(|h| (format!("Note: including file: {}\n", h).into_bytes(), true)).collect();
            for h in hidden {
                note_names.push((format!("Note: including file: {}\n", h).into_bytes(), h.clone()));
            }
            pre.extend(lines.drain(..));
            lines = pre;
        }
        for h in hidden {
            if many {
                break;
            }
            let max_pos = if unterminated_last { lines.len() - 1 } else { lines.len() };
            let pos = r.below(max_pos + 1);
            let sp = match r.below(6) {
                0 => format!("./{}", h),
                1 => format!("zz/../{}", h),
                _ => h.clone(),
            };
            let mut l = format!("Note: including file: {}{}", " ".repeat(r.below(4)), sp).into_bytes();
            if r.pct(30) {
                l.push(b'\r');
            }
            l.push(b'\n');
            note_names.push((l.clone(), h.clone()));
            lines.insert(pos, (l.clone(), true));
            if r.pct(10) {
                // duplicates are legal
                lines.insert(pos, (l, true));
            }
        }
    }
    let mut raw = Vec::new();
    let mut expected = Vec::new();
    let mut order: Vec<String> = Vec::new();
    for (l, note) in &lines {
        raw.extend_from_slice(l);
        if !note {
            expected.extend_from_slice(l);
        } else if let Some((_, n)) = note_names.iter().find(|(b, _)| b == l) {
            order.push(n.clone());
        }
    }
    let mut chunks: Vec<Vec<u8>> = Vec::new();
    if !raw.is_empty() {
        match r.below(5) {
            0 => chunks.push(raw.clone()),
            1 if raw.len() <= 64 => {
                for b in &raw {
                    chunks.push(vec![*b]);
                }
            }
            2 => {
                for c in raw.chunks(4096) {
                    chunks.push(c.to_vec());
                }
            }
            _ => {
                let mut i = 0;
                while i < raw.len() {
                    let n = (1 + r.below(if raw.len() > 1000 { 5000 } else { 40 })).min(raw.len() - i);
                    chunks.push(raw[i..i + n].to_vec());
                    i += n;
                }
            }
        }
    }
    (chunks, expected, order)
}

fn depfile_text(r: &mut Rng, hidden: &[String]) -> String {
    let sp: Vec<String> = hidden
        .iter()
        .flat_map(|h| {
            let s = match r.below(8) {
                0 => format!("./{}", h),
                1 => format!("zz/../{}", h),
                _ => h.clone(),
            };
            if r.pct(8) {
                vec![s.clone(), s]
            } else {
                vec![s]
            }
        })
        .collect();
    match r.below(6) {
        0 => format!("out: {}\n", sp.join(" ")),
        1 => format!("out: {}", sp.join(" ")),
        2 => {
            let mut t = String::from("out:");
            for s in &sp {
                t.push_str(" \\\n  ");
                t.push_str(s);
            }
            t.push('\n');
            t
        }
        3 => {
            // several targets; all prerequisites count
            let k = r.below(sp.len() + 1);
            format!("out: {}\n\nout2 : {}\n", sp[..k].join(" "), sp[k..].join("  "))
        }
        4 => format!("\nout:   {}  \n\n", sp.join("   ")),
        _ => format!("out: {}\nout.extra:\n", sp.join(" ")),
    }
}

impl Host for SimHost {
    fn argv0(&mut self) -> String {
        if self.spec.argv0_ninja {
            "/usr/bin/ninja".into()
        } else {
            "n2".into()
        }
    }
    fn args(&mut self) -> Vec<String> {
        let sh = self.sh.borrow();
        let mut argv: Vec<String> = Vec::new();
        if self.spec.use_c {
            argv.push("-C".into());
            argv.push("w".into());
        }
        if self.spec.explicit_f || sh.model.disk.manifest != "build.ninja" {
            argv.push("-f".into());
            let m = sh.model.disk.manifest.clone();
            argv.push(match self.spec.f_spelling {
                1 => format!("./{}", m),
                2 => format!("zz/../{}", m),
                _ => m,
            });
        }
        argv.push("-j".into());
        argv.push(self.spec.j.to_string());
        if self.spec.restat {
            if !self.spec.argv0_ninja {
                argv.extend(["-d", "ninja_compat"].iter().map(|s| s.to_string()));
            }
            argv.extend(["-t", "restat"].iter().map(|s| s.to_string()));
        }
        if let Some(k) = self.spec.k {
            argv.push("-k".into());
            argv.push(k.to_string());
        }
        if self.spec.verbose {
            argv.push("-v".into());
        }
        if self.spec.explain {
            argv.extend(["-d", "explain"].iter().map(|s| s.to_string()));
        }
        argv.extend(self.spec.targets.iter().cloned());
        argv
    }

    fn point(&mut self, op: IoOp, path: &str, in_task: bool) -> Option<std::io::ErrorKind> {
        let mut sh = self.sh.borrow_mut();
        sh.points += 1;
        let n = sh.points;
        if n > 400_000 {
            drop(sh);
            panic!("SIM: shim-call budget exceeded: n2 does not terminate");
        }
        if op == IoOp::Open && canon(path) == sh.model.disk.manifest {
            sh.manifest_opens += 1;
            if sh.manifest_opens > 1 {
                sh.finalize_pending();
                sh.ev.push(Ev::Reload);
                sh.model.mem = sh.model.disk.clone();
                sh.stats.bump("probe.manifest_reloaded");
            }
        }
        let f = &self.spec.faults;
        if Some(n) == f.sigint_at && !sh.sigint_raised {
            sh.sigint_raised = true;
            sh.ev.push(Ev::Fault("sigint_flag"));
            sh.stats.bump("fault.sigint_flag");
            n2::verif::set_interrupted(true);
        }
        if Some(n) == f.crash_at && op != IoOp::DbWrite {
            sh.crash_fired = true;
            if let Some(p) = &mut sh.pending {
                // died somewhere inside / right after the record group of the last success
                p.rec.uncertain = true;
            }
            sh.ev.push(Ev::Fault("crash"));
            sh.stats.bump("fault.crash_at_point");
            drop(sh);
            std::panic::panic_any(SimCrash);
        }
        if Some(n) == f.io_err_at {
            match op {
                IoOp::Stat | IoOp::Mkdir | IoOp::WriteFile | IoOp::Open | IoOp::Create | IoOp::DbOpen => {
                    sh.io_err_fired = true;
                    if in_task {
                        if let Some(c) = self.cur {
                            sh.task_io_err.push(c);
                        }
                    }
                    sh.ev.push(Ev::Fault("io_err"));
                    sh.stats.bump(match op {
                        IoOp::Stat => "fault.eio_stat",
                        IoOp::Mkdir => "fault.eio_mkdir",
                        IoOp::WriteFile => "fault.eio_rspfile_write",
                        IoOp::Open => "fault.eio_open",
                        IoOp::Create => "fault.eio_create",
                        _ => "fault.eio_dbopen",
                    });
                    return Some(match n % 3 {
                        0 => std::io::ErrorKind::PermissionDenied,
                        1 => std::io::ErrorKind::Other,
                        _ => std::io::ErrorKind::StorageFull,
                    });
                }
                _ => {}
            }
        }
        None
    }

    fn pick_exec(&mut self, pending: usize, must: bool) -> Option<usize> {
        debug_assert_eq!(pending, self.pend.len());
        if pending == 0 {
            return None;
        }
        let pol = self.spec.policy;
        let idx: Option<usize> = match pol {
            1 => {
                if must {
                    Some(self.rng.below(pending))
                } else {
                    None
                }
            }
            2 => Some(self.rng.below(pending)),
            3 => {
                if must || self.rng.pct(25) {
                    Some(pending - 1)
                } else {
                    None
                }
            }
            6 => {
                let free: Vec<usize> = (0..pending).filter(|&i| !self.is_held(self.pend[i])).collect();
                if !free.is_empty() {
                    Some(free[self.rng.below(free.len())])
                } else if must {
                    Some(self.rng.below(pending))
                } else {
                    None
                }
            }
            7 => {
                if self.rng.pct(5) {
                    self.epoch += 1;
                }
                if must || self.rng.pct(60) {
                    (0..pending).max_by_key(|&i| self.prio(self.pend[i]))
                } else {
                    None
                }
            }
            _ => {
                if must || self.rng.pct(50) {
                    Some(self.rng.below(pending))
                } else {
                    None
                }
            }
        };
        if let Some(i) = idx {
            let i = i.min(pending - 1);
            self.cur = Some(self.pend.remove(i));
            Some(i)
        } else {
            None
        }
    }

    fn on_channel(&mut self) {
        self.chan.clear();
    }

    fn pick_deliver(&mut self, nonempty: &[usize]) -> usize {
        let n = nonempty.len();
        let sid = |q: usize| -> usize { self.chan.get(q.wrapping_sub(1)).copied().unwrap_or(usize::MAX) };
        match self.spec.policy {
            4 => 0,
            5 => n - 1,
            6 => {
                let free: Vec<usize> = (0..n).filter(|&i| !self.is_held(sid(nonempty[i]))).collect();
                if !free.is_empty() {
                    free[self.rng.below(free.len())]
                } else {
                    self.sh.borrow_mut().stats.bump("probe.held_delivery_forced");
                    self.rng.below(n)
                }
            }
            7 => (0..n).max_by_key(|&i| self.prio(sid(nonempty[i]))).unwrap_or(0),
            _ => self.rng.below(n),
        }
    }

    fn command(&mut self, cmd: &str, out: &mut dyn FnMut(&[u8])) -> Option<anyhow::Result<Termination>> {
        if self.real_spawn {
            return None;
        }
        Some(self.exec(cmd, out))
    }

    fn permute(&mut self, n: usize) -> Vec<usize> {
        let mut v: Vec<usize> = (0..n).collect();
        self.rng.shuffle(&mut v);
        if n > 1 {
            self.sh.borrow_mut().stats.bump("probe.dependents_permuted");
        }
        v
    }

    fn db_write(&mut self, len: usize) -> WriteFate {
        let mut sh = self.sh.borrow_mut();
        sh.dbwrites += 1;
        let f = &self.spec.faults;
        let hit = Some(sh.points) == f.crash_at || Some(sh.dbwrites) == f.crash_db_write;
        if hit && !sh.dbfault_fired {
            sh.dbfault_fired = true;
            let k = match f.crash_db_bytes {
                10_000 => len.saturating_sub(1),
                10_001 => len,
                b => b % (len + 1),
            };
            if let Some(p) = &mut sh.pending {
                if k < len {
                    p.rec.torn = true;
                } else {
                    p.rec.uncertain = true;
                }
            } else {
                let off = sh.orphan.map(|o| o.0).unwrap_or(0);
                sh.orphan = Some((off, k < len, k >= len));
            }
            let tail = len - k;
            sh.stats.bump(match (k, tail) {
                (0, _) => "probe.torn_persist_0",
                (1, _) => "probe.torn_persist_1",
                (2, _) => "probe.torn_persist_2",
                (_, 0) => "probe.torn_persist_all",
                (_, 1) => "probe.torn_persist_len_minus_1",
                _ => "probe.torn_persist_mid",
            });
            if f.db_err && Some(sh.dbwrites) == f.crash_db_write {
                sh.ev.push(Ev::Fault("db_err"));
                sh.stats.bump("fault.log_write_error_after_k_bytes");
                sh.io_err_fired = true;
                return WriteFate::Err(k, std::io::ErrorKind::StorageFull);
            }
            sh.crash_fired = true;
            sh.ev.push(Ev::Fault("db_crash"));
            sh.stats.bump("fault.death_in_log_write");
            return WriteFate::Crash(k);
        }
        if f.short_writes && len > 1 && self.rng.pct(30) {
            sh.stats.bump("fault.legal_short_write");
            return WriteFate::Short(1 + self.rng.below(len - 1));
        }
        WriteFate::Full
    }

    fn db_written(&mut self, bytes: &[u8]) {
        let mut sh = self.sh.borrow_mut();
        let size = disk::file_len(&sh.db_path).unwrap_or(0);
        sh.ev.push(Ev::DbWrite(bytes.len()));
        if let Some(p) = &mut sh.pending {
            p.rec.end_off = size;
            p.written = true;
        } else {
            let (torn, unc) = sh.orphan.map(|o| (o.1, o.2)).unwrap_or((false, false));
            sh.orphan = Some((size, torn, unc));
        }
    }

    fn on_state(&mut self, bid: usize, desc: Option<&str>, cmdline: Option<&str>, prev: u8, next: u8) {
        let mut sh = self.sh.borrow_mut();
        let sid = sid_of_desc(desc).or_else(|| cmdline.and_then(step_id_of));
        let phony = cmdline.is_none();
        sh.ev.push(Ev::State { bid, sid, phony, prev, next });
        sh.states.insert(bid, (next, phony, sid));
        // adoption (-t restat): a dirty step goes Ready -> Done right after its record was appended
        if sh.adopt && prev == 2 && next == 5 {
            if let (Some((end, torn, uncertain)), Some(sid)) = (sh.orphan.take(), sid) {
                let mem = sh.model.mem.clone();
                if let Some(si) = mem.step_by_id(sid) {
                    // what n2 re-records: the discovered deps it holds for the step (observed when
                    // the step was judged; the loaded-deps oracle checks them against the model
                    // whenever the record is certain), minus the step's declared inputs
                    let held = sh.held_deps.get(&sid).cloned().unwrap_or_else(|| sh.model.rec_for(&mem, si).map(|r| r.deps.clone()).unwrap_or_default());
                    let deps = Model::deps_to_record(&mem, si, &Some(held));
                    // adopting on top of a record that may or may not be in the log: same doubt
                    let uncertain = uncertain || sh.model.rec_for(&mem, si).map(|r| r.uncertain).unwrap_or(false);
                    if let Some(sig) = sh.model.sig_now(&mem, si, &deps) {
                        let outs = mem.steps[si].outs.clone();
                        for o in &outs {
                            sh.model.taint.insert(o.clone());
                        }
                        for n in outs.iter().chain(deps.iter()) {
                            sh.model.ever_logged.insert(n.clone());
                        }
                        sh.model.recs.push(Rec { outs, deps, sig, end_off: end, torn, uncertain });
                        sh.stats.bump("probe.adopted_record");
                    }
                }
            }
        }
    }

    fn on_check(&mut self, _bid: usize, desc: Option<&str>, cmdline: Option<&str>, deps: &[String]) {
        let mut sh = self.sh.borrow_mut();
        let sid = match sid_of_desc(desc).or_else(|| cmdline.and_then(step_id_of)) {
            Some(s) => s,
            None => return,
        };
        if cmdline.is_none() {
            return;
        }
        sh.held_deps.insert(sid, deps.to_vec());
        let mem = sh.model.mem.clone();
        if let Some(si) = mem.step_by_id(sid) {
            if !sh.model.judgeable(&mem, si) || sh.model.orphan_cut.is_some() {
                return;
            }
            let expected: Vec<String> = sh.model.rec_for(&mem, si).map(|r| r.deps.clone()).unwrap_or_default();
            if expected.as_slice() != deps {
                let d = format!(
                    "s{}: its last successful run reported {:?} (after canonicalisation, without declared inputs), but n2 holds {:?} as its discovered dependencies",
                    sid,
                    &expected[..expected.len().min(8)],
                    &deps[..deps.len().min(8)]
                );
                sh.viol.push(viol("C09", "remembered-deps-differ", d.clone()));
                sh.viol.push(viol("C08", "loaded-deps-differ", d));
            }
            sh.stats.bump("probe.discovered_deps_compared");
        }
    }

    fn on_update(&mut self, c: [usize; 6], total: usize) {
        let mut sh = self.sh.borrow_mut();
        sh.finalize_pending();
        if total != c.iter().sum::<usize>() {
            sh.viol.push(viol("C19", "total-vs-states", format!("reported total {} but the per-state counts {:?} add up to {}", total, c, c.iter().sum::<usize>())));
        }
        sh.ev.push(Ev::Update(c));
    }

    fn on_task_started(&mut self, _bid: usize, cmd: &str) {
        let mut sh = self.sh.borrow_mut();
        sh.finalize_pending();
        let sid = match step_id_of(cmd) {
            Some(s) => s,
            None => {
                sh.viol.push(viol("C16", "cmd-unparsable", format!("started command {:?}", cmd)));
                usize::MAX
            }
        };
        self.pend.push(sid);
        self.chan.push(sid);
        let mem = sh.model.mem.clone();
        if let Some(si) = mem.step_by_id(sid) {
            let want = mem.cmdline(&mem.steps[si]);
            if cmd != want {
                sh.viol.push(viol("C16", "cmdline", format!("s{}: started {:?}, manifest says {:?}", sid, cmd, want)));
            }
            let d = if sh.model.judgeable(&mem, si) { sh.model.dirty(&mem, si) } else { Some("uncertain record".into()) };
            sh.started_dirty.push((sid, d));
        } else {
            sh.viol.push(viol("C18", "start-unknown-step", format!("started {:?} which is not a step of the loaded manifest", cmd)));
        }
        sh.ev.push(Ev::Start(sid));
        sh.tee.push(Tee::Started(sid, cmd.to_string()));
    }

    fn on_task_finished(&mut self, _bid: usize, cmd: &str, term: &Termination, output: &[u8]) {
        let mut sh = self.sh.borrow_mut();
        sh.finalize_pending();
        let sid = step_id_of(cmd).unwrap_or(usize::MAX);
        let t = match term {
            Termination::Success => 0,
            Termination::Failure => 1,
            Termination::Interrupted => 2,
        };
        sh.ev.push(Ev::Deliver(sid, t));
        sh.tee.push(Tee::Finished(sid, t, output.to_vec()));
        let io_hit = sh.task_io_err.contains(&sid);
        if let Some(Some(exp)) = sh.expected_out.get(&sid) {
            if exp != output && !io_hit {
                let code = if sh.model.mem.step_by_id(sid).map(|si| sh.model.mem.steps[si].depmode == 2).unwrap_or(false) {
                    "showincludes-filter"
                } else {
                    "output-bytes"
                };
                let prop = if code == "showincludes-filter" { "C09" } else { "C16" };
                let d = format!(
                    "s{}: command wrote {} bytes {:?}..., n2 reports {} bytes {:?}...",
                    sid,
                    exp.len(),
                    String::from_utf8_lossy(&exp[..exp.len().min(60)]),
                    output.len(),
                    String::from_utf8_lossy(&output[..output.len().min(60)])
                );
                sh.viol.push(viol(prop, code, d));
            }
        }
        if let Some(&pt) = sh.planned_term.get(&sid) {
            if pt != t && !(io_hit && t == 1) {
                sh.viol.push(viol("C16", "termination", format!("s{}: command ended with class {} but n2 reports {}", sid, pt, t)));
                if pt != 0 && t == 0 {
                    sh.viol.push(viol("C05", "failure-treated-as-success", format!("s{}: the command failed (or could not be run / its depfile could not be read) but n2 treats it as a success: dependents may start, it may be recorded, the exit status may be 0", sid)));
                }
            }
        }
        if t == 0 {
            let mem = sh.model.mem.clone();
            if let Some(si) = mem.step_by_id(sid) {
                let rep = sh.reported.get(&sid).cloned().unwrap_or(None);
                let deps = Model::deps_to_record(&mem, si, &rep);
                for o in &mem.steps[si].outs {
                    sh.model.taint.remove(o);
                }
                sh.model.norecord_dep_missing.remove(&sid);
                if deps.iter().any(|d| !disk::exists(d)) {
                    sh.model.norecord_dep_missing.insert(sid);
                }
                if let Some(sig) = sh.model.sig_now(&mem, si, &deps) {
                    for n in mem.steps[si].outs.iter().chain(deps.iter()) {
                        sh.model.ever_logged.insert(n.clone());
                    }
                    sh.pending = Some(Pending {
                        sid,
                        rec: Rec { outs: mem.steps[si].outs.clone(), deps, sig, end_off: 0, torn: false, uncertain: false },
                        written: false,
                    });
                }
            }
        }
    }
}

impl SimHost {
    fn exec(&mut self, cmd: &str, out: &mut dyn FnMut(&[u8])) -> anyhow::Result<Termination> {
        let sid = match step_id_of(cmd) {
            Some(s) => s,
            None => return Ok(Termination::Failure),
        };
        let mut sh = self.sh.borrow_mut();
        sh.ev.push(Ev::Exec(sid));
        let mem = sh.model.mem.clone();
        let si = match mem.step_by_id(sid) {
            Some(si) => si,
            None => return Ok(Termination::Failure),
        };
        let s = &mem.steps[si];
        let mut r = Rng::new(h64(&(self.spec.sub, sid, 0xE7u8)));
        // C16 preconditions at the instant of exec
        for o in &s.outs {
            if let Some(d) = parent_dir(o) {
                if !std::path::Path::new(d).is_dir() {
                    sh.viol.push(viol("C16", "outdir-missing", format!("s{}: directory {:?} of output {:?} does not exist when the command starts", sid, d, o)));
                }
            }
        }
        if let Some(rsp) = &s.rsp {
            let want = mem.rsp_content(s).unwrap();
            match disk::read_str(&rsp.path) {
                Some(got) if got == want => {}
                got => sh.viol.push(viol("C16", "rspfile", format!("s{}: rspfile {:?} holds {:?} when the command starts, expected {:?}", sid, rsp.path, got, want))),
            }
        }
        let f = self.spec.faults.clone();
        if f.spawn_err.contains(&sid) {
            sh.stats.bump("fault.spawn_error");
            sh.planned_term.insert(sid, 1);
            sh.expected_out.insert(sid, Some(b"posix_spawn: simulated failure\n".to_vec()));
            return Err(anyhow::anyhow!("posix_spawn: simulated failure"));
        }
        // what the command really reads, right now
        let reads: Vec<(String, String)> = s
            .exp
            .iter()
            .chain(&s.imp)
            .map(|f| (f.clone(), disk::read_str(f).unwrap_or_else(|| "MISSING".into())))
            .collect();
        let hidden = match mem.hidden(s, &|n| disk::exists(n)) {
            Ok(h) => h,
            Err(missing) => {
                let msg = format!("fatal error: {} not found\n", missing).into_bytes();
                out(&msg);
                sh.expected_out.insert(sid, Some(msg));
                sh.planned_term.insert(sid, 1);
                sh.stats.bump("probe.compile_error_missing_include");
                return Ok(Termination::Failure);
            }
        };
        let hid: Vec<(String, String)> = hidden
            .iter()
            .map(|h| (h.clone(), disk::read_str(h).unwrap_or_else(|| "MISSING".into())))
            .collect();
        // what the command reports: the files it read plus (-MG style) missing soft includes
        let mut reported = hidden.clone();
        let miss = mem.reported_missing(s, &|n| disk::exists(n));
        if !miss.is_empty() {
            sh.stats.bump("probe.reported_dependency_missing");
        }
        reported.extend(miss);
        let (chunks, expected, note_order) = out_plan(&mut r, sid, s.depmode == 2, &reported);
        if s.depmode == 2 {
            // n2 learns the names in the order the notes appear in the output
            reported = note_order;
        }
        for c in &chunks {
            out(c);
        }
        if chunks.len() > 1 {
            sh.stats.bump("probe.multi_chunk_output");
        }
        if expected.len() >= 4096 {
            sh.stats.bump("probe.output_ge_4096");
        }
        sh.expected_out.insert(sid, Some(expected));
        let failing = f.fail.contains(&sid);
        let interrupted = f.interrupt.contains(&sid);
        if (failing || interrupted) && (!f.fail_after_write || s.generator) {
            sh.planned_term.insert(sid, if interrupted { 2 } else { 1 });
            sh.stats.bump(if interrupted { "fault.cmd_sigint_before_write" } else { "fault.cmd_fail_before_write" });
            return Ok(if interrupted { Termination::Interrupted } else { Termination::Failure });
        }
        if s.generator {
            // the generator renders the variant named by its input
            let v = disk::read_str("gen.in")
                .and_then(|c| c.rsplit("#variant=").next().and_then(|x| x.trim().parse::<usize>().ok()))
                .unwrap_or(0)
                .min(sh.model.variants.len().saturating_sub(1));
            let mut np = sh.model.variants[v].clone();
            np.srcs = sh.model.disk.srcs.clone();
            for (name, text) in np.render().files.iter() {
                let same = disk::read_str(name).as_deref() == Some(text.as_str());
                if s.restat && same {
                    sh.stats.bump("probe.generator_kept_unchanged_file");
                    continue;
                }
                disk::write_with_dirs(name, text.as_bytes())?;
                let t = sh.model.next_tick();
                disk::set_mtime(name, t);
            }
            if !(failing || interrupted) {
                sh.model.disk = np;
                sh.stats.bump("probe.generator_ran");
            }
        } else {
            for (k, o) in s.outs.iter().enumerate() {
                let c = if failing || interrupted {
                    format!("garbage{}", sh.model.tick)
                } else {
                    out_content(cmd, k, &mem.rsp_content(s), &reads, &hid)
                };
                if s.restat && !failing && !interrupted && disk::read_str(o).as_deref() == Some(&c) {
                    sh.stats.bump("probe.restat_like_output_kept");
                    continue;
                }
                if (failing || interrupted) && r.pct(40) {
                    continue; // wrote only some of its outputs
                }
                disk::write_with_dirs(o, c.as_bytes())?;
                let t = sh.model.next_tick();
                disk::set_mtime(o, t);
            }
        }
        // Meson-like commands refresh one of their own (private) inputs while they run
        if let Some(t) = &s.touches {
            if disk::exists(t) {
                let tk = sh.model.next_tick();
                disk::set_mtime(t, tk);
                sh.stats.bump("probe.command_touched_own_input");
            }
        }
        if s.depmode == 1 {
            let p = mem.depfile_path(s).unwrap();
            if f.bad_depfile.contains(&sid) && !failing && !interrupted {
                disk::write_with_dirs(&p, b"out f0 f1 no colon here\n")?;
                let t = sh.model.next_tick();
                disk::set_mtime(&p, t);
                sh.planned_term.insert(sid, 1);
                sh.expected_out.insert(sid, None);
                sh.stats.bump("fault.garbage_depfile");
                return Ok(Termination::Success);
            }
            let text = depfile_text(&mut r, &reported);
            disk::write_with_dirs(&p, text.as_bytes())?;
            let t = sh.model.next_tick();
            disk::set_mtime(&p, t);
        }
        if s.depmode != 0 {
            sh.reported.insert(sid, Some(reported.clone()));
        } else {
            sh.reported.insert(sid, None);
        }
        if interrupted {
            sh.planned_term.insert(sid, 2);
            sh.stats.bump("fault.cmd_sigint_after_write");
            return Ok(Termination::Interrupted);
        }
        if failing {
            sh.planned_term.insert(sid, 1);
            sh.stats.bump("fault.cmd_fail_after_write");
            return Ok(Termination::Failure);
        }
        sh.planned_term.insert(sid, 0);
        Ok(Termination::Success)
    }
}
